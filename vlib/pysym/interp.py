"""pysym interpreter: executes the *real* AST of repository functions over concolic values.

One `Ctx` is one path.  Paths are enumerated by re-execution with a preset list of decisions
(`decide`).  Obligations are (assumptions => goal) pairs collected along the path and discharged
by vlib.pysym.solve.  See DESIGN.md 2.2 for the subset and the semantics assumed.
"""
import ast
import builtins
import types
import z3

from .values import *     # noqa: F401,F403
from . import values as V


class PathEnd(Exception):
  """This path ends here (loop body verified up to the invariant, or infeasible)."""


class PyExc(Exception):
  """An exception of the interpreted program: exc_cls is the real Python class."""
  def __init__(self, exc_cls, args=(), where=None):
    Exception.__init__(self, "%s%r" % (exc_cls.__name__, tuple(args)))
    self.exc_cls, self.exc_args, self.where = exc_cls, args, where


class _Return(Exception):
  def __init__(self, value): self.value = value
class _Break(Exception): pass
class _Continue(Exception): pass


class Obligation(object):
  def __init__(self, name, kind, assumptions, goal, where, decisions, witness_env=None):
    self.name, self.kind, self.assumptions, self.goal = name, kind, list(assumptions), goal
    self.where, self.decisions = where, tuple(decisions)
    self.witness_env = witness_env       # how to rebuild concrete arguments from a model
  def key(self):
    return (self.name, self.kind, self.where, self.decisions)


class FuncVal(object):
  """Closure over a real function definition (ast.FunctionDef or ast.Lambda)."""
  def __init__(self, node, module, closure=None, qualname=None, cls=None):
    self.node, self.module, self.closure, self.cls = node, module, closure, cls
    self.qualname = qualname or getattr(node, "name", "<lambda>")
  def __repr__(self): return "FuncVal(%s)" % self.qualname


class BoundMethod(object):
  def __init__(self, obj, func): self.obj, self.func = obj, func


class Model(object):
  """An assumed contract for a builtin / library / stubbed callable: fn(interp, *args, **kw)."""
  def __init__(self, name, fn): self.name, self.fn = name, fn
  def __repr__(self): return "Model(%s)" % self.name


class SelfModel(Model):
  """A Model stored as a field of a modelled object; it receives that object as first argument
  (after the interpreter) when fetched through attribute access."""


class Ctx(object):
  def __init__(self, preset=(), concrete=False, solver_timeout_ms=400):
    self.preset = list(preset)
    self.decisions = []
    self.assumptions = []
    self.obligations = []
    self.pending = []
    self.counter = {}
    self.concrete = concrete
    self.timeout = solver_timeout_ms
    self.assumed_contracts = set()     # names of Models actually used on this path
    self.feas_checks = 0
    self.covers = []                   # (name, assumptions): points that must be reachable
    self._qf_flags = []

  def const(self, name, sort):
    n = self.counter.get(name, 0)
    self.counter[name] = n + 1
    return z3.Const("%s!%d" % (name, n) if n else name, sort)

  def fresh(self, shape, name):
    v = shape.fresh(name, self)
    for f in shape.wf(v):
      self.assume(f)
    return v

  def assume(self, t):
    if isinstance(t, bool):
      if not t: raise PathEnd()
      return
    t = z3.simplify(t)
    if z3.is_true(t): return
    if z3.is_false(t): raise PathEnd()
    self.assumptions.append(t)

  def _feasible(self, t):
    """Path pruning only (an over-approximation is sound): first with the quantifier-free
    assumptions (milliseconds), then, if still feasible, with everything under a short timeout."""
    self.feas_checks += 1
    from .solve import _has_quantifier
    while len(self._qf_flags) < len(self.assumptions):
      self._qf_flags.append(not _has_quantifier(self.assumptions[len(self._qf_flags)]))
    s = z3.Solver()
    s.set("timeout", self.timeout)
    s.add(*[a for a, qf in zip(self.assumptions, self._qf_flags) if qf])
    s.add(t)
    if s.check() == z3.unsat: return False
    if all(self._qf_flags): return True
    s = z3.Solver()
    s.set("timeout", min(self.timeout, 150))
    s.set("smt.mbqi", False); s.set("smt.auto_config", False)
    s.add(*self.assumptions)
    s.add(t)
    return s.check() != z3.unsat

  def decide(self, cond):
    """cond: python bool or z3 Bool.  Returns the branch taken on this path."""
    if isinstance(cond, bool): return cond
    cond = z3.simplify(cond)
    if z3.is_true(cond): return True
    if z3.is_false(cond): return False
    i = len(self.decisions)
    if i < len(self.preset):
      choice = self.preset[i]
    else:
      ft = self._feasible(cond)
      ff = self._feasible(z3.Not(cond))
      if ft and ff:
        choice = True
        self.pending.append(self.decisions + [False])
      elif ft: choice = True
      elif ff: choice = False
      else: raise PathEnd()
    self.decisions.append(choice)
    self.assumptions.append(cond if choice else z3.Not(cond))
    return choice

  def fork(self, n_labels):
    """Non-deterministic choice among labels 0..n-1 (used for loop 'iterate' vs 'exit')."""
    choice = 0
    for k in range(n_labels - 1):
      i = len(self.decisions)
      if i < len(self.preset):
        take = self.preset[i]
      else:
        take = True
        self.pending.append(self.decisions + [False])
      self.decisions.append(take)
      if take:
        return k
      choice = k + 1
    return choice

  def oblige(self, name, goal, kind, where=None, witness_env=None):
    if isinstance(goal, bool): goal = z3.BoolVal(goal)
    self.obligations.append(Obligation(name, kind, self.assumptions, goal, where, self.decisions,
                                       witness_env))


# ------------------------------------------------------------------------------------------

def _is_num(v): return isinstance(v, (int, float, SInt, SBool)) and not isinstance(v, str)


class Interp(object):
  MAX_DEPTH = 40

  def __init__(self, ctx, contract=None, registry=None):
    self.ctx = ctx
    self.contract = contract
    self.registry = registry or {}
    self.spec = False
    self.depth = 0
    self.old_env = {}
    self.uf_cache = {}
    self.in_ghost = False
    self.set_origin = {}
    from . import models
    self.models = models

  # ---- helpers ---------------------------------------------------------------------------
  def unsupported(self, what, node=None):
    loc = " (line %s)" % node.lineno if node is not None and hasattr(node, "lineno") else ""
    raise Unsupported(what + loc)

  def raise_(self, cls, *args, node=None):
    raise PyExc(cls, args, getattr(node, "lineno", None))

  def term(self, v):
    """Int/Bool z3 term of a scalar value."""
    if isinstance(v, SInt) or isinstance(v, SBool): return v.t
    if isinstance(v, bool): return z3.BoolVal(v)
    if isinstance(v, int): return z3.IntVal(v)
    if isinstance(v, float) and v == v and abs(v) != float("inf") and v == int(v):
      return z3.IntVal(int(v))
    self.unsupported("no arithmetic term for %r" % (v,))

  def int_term(self, v):
    if isinstance(v, SBool): return z3.If(v.t, z3.IntVal(1), z3.IntVal(0))
    if isinstance(v, bool): return z3.IntVal(int(v))
    return self.term(v)

  def truth(self, v):
    """Python truthiness as python bool or z3 Bool."""
    if isinstance(v, SBool): return v.t
    if isinstance(v, SInt): return v.t != 0
    if isinstance(v, SStr): return z3.Length(v.t) > 0
    if isinstance(v, SSeq): return v.length > 0
    if isinstance(v, SOpt):
      inner = self.truth(v.val)
      return z3.And(z3.Not(v.isnone), inner if not isinstance(inner, bool) else z3.BoolVal(inner))
    if isinstance(v, SOpq):
      f = self.uf("truthy_" + v.kind, [V.opaque_sort(v.kind)], z3.BoolSort())
      return f(v.t)
    if isinstance(v, SSet):       # non-empty: differs from the empty characteristic array
      return v.arr != z3.K(v.arr.sort().domain(), z3.BoolVal(False))
    if isinstance(v, SMap):
      return v.present != z3.K(v.present.sort().domain(), z3.BoolVal(False))
    if isinstance(v, ObjVal):
      if "__truth__" in v.fields:
        return v.fields["__truth__"](self, v)
      for dunder in ("__bool__", "__len__"):
        m = self.lookup_method(v, dunder)
        if m is not None and not isinstance(m, tuple):
          r = self.call(m, [], {})
          return self.truth(r)
      return True
    if isinstance(v, (FuncVal, BoundMethod, Model)): return True
    return bool(v)

  def uf(self, name, dom, rng):
    k = (name, tuple(str(d) for d in dom), str(rng))
    if k not in self.uf_cache:
      self.uf_cache[k] = z3.Function(name, *(list(dom) + [rng]))
    return self.uf_cache[k]

  def branch(self, v):
    """Truth value of v as a python bool, forking the path when symbolic."""
    t = self.truth(v)
    if isinstance(t, bool): return t
    if self.spec: self.unsupported("branching inside a spec expression")
    return self.ctx.decide(t)

  def as_bool_term(self, v):
    t = self.truth(v)
    return z3.BoolVal(t) if isinstance(t, bool) else t

  # ---- equality / comparison -----------------------------------------------------------------
  def eq(self, a, b):
    """Python == as python bool or z3 Bool (for the builtin types in the subset)."""
    if not is_symbolic(a) and not is_symbolic(b) and not isinstance(a, ObjVal) \
        and not isinstance(b, ObjVal):
      return a == b
    if a is None or b is None:
      o = b if a is None else a
      if isinstance(o, SOpt): return o.isnone
      if o is None: return True
      return False
    if isinstance(a, SOpt) or isinstance(b, SOpt):
      if isinstance(b, SOpt) and not isinstance(a, SOpt): a, b = b, a
      if isinstance(b, SOpt):
        inner = self.eq(a.val, b.val)
        return z3.Or(z3.And(a.isnone, b.isnone),
                     z3.And(z3.Not(a.isnone), z3.Not(b.isnone), self._bt(inner)))
      return z3.And(z3.Not(a.isnone), self._bt(self.eq(a.val, b)))
    if isinstance(a, (tuple, list)) and isinstance(b, (tuple, list)):
      if type(a) is not type(b) or len(a) != len(b): return False
      parts = [self.eq(x, y) for x, y in zip(a, b)]
      if any(p is False for p in parts): return False
      parts = [p for p in parts if p is not True]
      return z3.And(*parts) if parts else True
    if isinstance(a, SSeq) or isinstance(b, SSeq):
      if not isinstance(a, SSeq): a, b = b, a
      if isinstance(b, (tuple, list)):
        if (a.kind == "tuple") != isinstance(b, tuple): return False
        b = V.seq_from_concrete(a.elem, b, a.kind)
      if not isinstance(b, SSeq): return False
      if a.kind != b.kind: return False
      i = self.ctx.const("eq!i", z3.IntSort())
      el = self._bt(self.eq(a.at(i), b.at(i)))
      return z3.And(a.length == b.length,
                    z3.ForAll([i], z3.Implies(z3.And(i >= 0, i < a.length), el)))
    if isinstance(a, SOpq) and isinstance(b, SOpq):
      if a.kind != b.kind: return False
      eqf = self.contract.opq_eq.get(a.kind) if self.contract else None
      if eqf: return eqf(self, a, b)
      return a.t == b.t
    if isinstance(a, SOpq) or isinstance(b, SOpq):
      o, c = (a, b) if isinstance(a, SOpq) else (b, a)
      h = self.contract.opq_eq_const.get(o.kind) if self.contract else None
      if h: return h(self, o, c)
      self.unsupported("== between opaque %r and %r" % (o, c))
    if isinstance(a, SStr) or isinstance(b, SStr):
      if isinstance(a, (SStr, str)) and isinstance(b, (SStr, str)):
        return V.Str.leaves(a)[0] == V.Str.leaves(b)[0]
      return False
    if _is_num(a) and _is_num(b):
      return self.int_term(a) == self.int_term(b)
    if isinstance(a, ObjVal) or isinstance(b, ObjVal):
      return a is b
    if isinstance(a, (SSet, SMap)) or isinstance(b, (SSet, SMap)):
      o = b if isinstance(a, (SSet, SMap)) else a
      if isinstance(a, SSet) and isinstance(b, SSet) and a.arr.sort() == b.arr.sort():
        return a.arr == b.arr            # extensional
      if not isinstance(o, (Sym, set, frozenset, dict, list, tuple)):
        return False                     # a set/dict never equals an object of another kind
      self.unsupported("== on symbolic set/map")
    # mixed kinds (e.g. int vs str): Python gives False
    return False

  def _bt(self, x):
    return z3.BoolVal(x) if isinstance(x, bool) else x

  def wrap_bool(self, t):
    if isinstance(t, bool): return t
    t = z3.simplify(t)
    if z3.is_true(t): return True
    if z3.is_false(t): return False
    return SBool(t)

  def unwrap(self, v, node=None, op="<"):
    """T|None used where a T is needed: None raises TypeError (code mode) / is ignored (spec)."""
    if isinstance(v, SOpt):
      if not self.spec and self.ctx.decide(v.isnone):
        self.raise_(TypeError, "unsupported operand type(s) for %s: 'NoneType'" % op, node=node)
      return v.val
    return v

  def narrow(self, v):
    """T|None where the code needs a definite value: follows the path (forking when both are
    feasible) and returns None or the T."""
    if isinstance(v, SOpt):
      if self.spec: return v
      return None if self.ctx.decide(v.isnone) else self.narrow(v.val)
    return v

  def less(self, a, b, node=None):
    """a < b"""
    a, b = self.unwrap(a, node), self.unwrap(b, node)
    if not is_symbolic(a) and not is_symbolic(b):
      try:
        return a < b
      except TypeError as e:
        self.raise_(TypeError, str(e), node=node)
    if _is_num(a) and _is_num(b):
      return self.int_term(a) < self.int_term(b)
    if isinstance(a, SOpq) and isinstance(b, SOpq) and a.kind == b.kind:
      f = self.contract.opq_lt.get(a.kind) if self.contract else None
      if f: return f(self, a, b)
    if isinstance(a, ObjVal) and isinstance(b, ObjVal) and self.contract and \
        a.cls_name in self.contract.obj_lt:
      return self.contract.obj_lt[a.cls_name](self, a, b)
    if isinstance(a, tuple) and isinstance(b, tuple):
      # lexicographic, python semantics (== first, then <)
      res = len(a) < len(b)
      for x, y in reversed(list(zip(a, b))):
        e = self.eq(x, y)
        if e is True: continue
        l = self.less(x, y, node)
        if e is False: res = l
        else: res = z3.If(self._bt(e), self._bt(res), self._bt(l))
      return res
    self.unsupported("< between %r and %r" % (a, b), node)

  def contains(self, c, x, node=None):
    if isinstance(c, SOpt):
      if self.spec:        # total reading in a spec: None has no members
        return z3.And(z3.Not(c.isnone), self._bt(self.contains(c.val, x, node)))
      c = self.narrow(c)
      if c is None: self.raise_(TypeError, "argument of type 'NoneType' is not iterable", node=node)
    if isinstance(c, (SSet, SMap)) and isinstance(x, SOpt) and not isinstance(c.key, V.Opt):
      return z3.And(z3.Not(x.isnone), c.has(x.val))     # None is not a member of a set of T
    if isinstance(c, SSet): return c.has(x)
    if isinstance(c, SMap): return c.has(x)
    if isinstance(c, self.models.SeqSet): c = c.seq
    if isinstance(c, SSeq):
      j = self.ctx.const("in!j", z3.IntSort())
      return z3.Exists([j], z3.And(j >= 0, j < c.length, self._bt(self.eq(c.at(j), x))))
    if isinstance(c, (list, tuple)):
      parts = [self.eq(y, x) for y in c]
      if any(p is True for p in parts): return True
      parts = [p for p in parts if p is not False]
      return z3.Or(*parts) if parts else False
    if isinstance(c, (set, frozenset, dict)):
      if is_symbolic(x):
        ks = list(c)
        parts = [self.eq(k, x) for k in ks]
        parts = [p for p in parts if p is not False]
        if any(p is True for p in parts): return True
        return z3.Or(*parts) if parts else False
      try:
        return x in c
      except TypeError as e:
        self.raise_(TypeError, str(e), node=node)
    if isinstance(c, Model) and getattr(c, "contains", None):
      return c.contains(self, x)
    if isinstance(c, SOpq) and self.contract and ("in", c.kind) in self.contract.hooks:
      return self.contract.hooks[("in", c.kind)](self, c, x, node)
    if isinstance(c, (SStr, str)) and isinstance(x, (SStr, str)):
      return z3.Contains(V.Str.leaves(c)[0], V.Str.leaves(x)[0])
    if isinstance(c, ObjVal):
      m = self.lookup_method(c, "__contains__")
      if m is not None:
        return self.truth(self.call(m, [x], {}))
    if not is_symbolic(c) and not is_symbolic(x):
      try:
        return x in c
      except TypeError as e:
        self.raise_(TypeError, str(e), node=node)
    self.unsupported("`in` on %r" % (c,), node)

  # ---- arithmetic ------------------------------------------------------------------------------
  def binop(self, op, a, b, node=None):
    if not is_symbolic(a) and not is_symbolic(b) and not isinstance(a, ObjVal):
      try:
        return _NATIVE_BINOPS[type(op)](a, b)
      except KeyError:
        self.unsupported("operator %s" % type(op).__name__, node)
      except Exception as e:       # native Python semantics, including its exceptions
        self.raise_(type(e), *e.args, node=node)
    if isinstance(op, ast.Mult) and isinstance(a, list) and len(a) == 1 and isinstance(b, SInt):
      # [x] * n : n copies of x (empty when n <= 0)
      sh = shape_of(a[0])
      if sh is None and a[0] is None:
        return self.models.RepeatNone(b)       # [None] * n: the element shape comes from where it goes
      if sh is None: self.unsupported("[x] * n with x of unknown shape", node)
      res = self.ctx.fresh(V.Seq(sh), "rep")
      i = z3.Int("rp?%d" % self._qid())
      self.ctx.assume(res.length == z3.If(b.t > 0, b.t, 0))
      self.ctx.assume(z3.ForAll([i], z3.Implies(z3.And(i >= 0, i < res.length),
                                                self._bt(self.eq(res.at(i), a[0])))))
      return res
    if isinstance(op, ast.Mod) and isinstance(a, str):
      # "format" % values: only the fact that it is a str matters in the subset (messages)
      return SOpq(self.ctx.const("fmt", V.opaque_sort("StrMsg")), "StrMsg")
    a, b = self.unwrap(a, node, "+"), self.unwrap(b, node, "+")
    if isinstance(a, (SSet, set, frozenset)) and isinstance(b, (SSet, set, frozenset)) and \
        isinstance(op, (ast.Sub, ast.BitXor, ast.BitOr, ast.BitAnd)):
      # set algebra, pointwise on the characteristic arrays (fresh result + its definition)
      sa = a if isinstance(a, SSet) else None
      sb = b if isinstance(b, SSet) else None
      key = (sa if sa is not None else sb).key
      if sa is None: sa = V.SetOf(key).build(V.SetOf(key).leaves(a))
      if sb is None: sb = V.SetOf(key).build(V.SetOf(key).leaves(b))
      if sa.arr.sort() != sb.arr.sort(): self.unsupported("set operation across sorts", node)
      res = self.ctx.fresh(V.SetOf(key), "setop")
      x = z3.Const("so?%d" % self._qid(), sa.arr.sort().domain())
      ina, inb = z3.Select(sa.arr, x), z3.Select(sb.arr, x)
      body = {ast.Sub: z3.And(ina, z3.Not(inb)), ast.BitXor: z3.Xor(ina, inb),
              ast.BitOr: z3.Or(ina, inb), ast.BitAnd: z3.And(ina, inb)}[type(op)]
      self.ctx.assume(z3.ForAll([x], z3.Select(res.arr, x) == body))
      return res
    if isinstance(op, ast.Add) and isinstance(a, (list, tuple)) and isinstance(b, (list, tuple)):
      if type(a) is not type(b): self.raise_(TypeError, "can only concatenate like sequences", node=node)
      return a + b          # concrete containers (members may be symbolic)
    if isinstance(op, ast.Add) and isinstance(a, (SSeq, list, tuple)) \
        and isinstance(b, (SSeq, list, tuple)):
      return self.models.seq_concat(self, a, b)
    if isinstance(op, ast.Add) and isinstance(a, (SStr, str)) and isinstance(b, (SStr, str)):
      return SStr(z3.Concat(V.Str.leaves(a)[0], V.Str.leaves(b)[0]))
    if _is_num(a) and _is_num(b):
      x, y = self.int_term(a), self.int_term(b)
      if isinstance(op, ast.Add): return SInt(x + y)
      if isinstance(op, ast.Sub): return SInt(x - y)
      if isinstance(op, ast.Mult): return SInt(x * y)
      if isinstance(op, (ast.FloorDiv, ast.Mod)):
        if not self.spec:
          if self.ctx.decide(y == 0):
            self.raise_(ZeroDivisionError, "integer division or modulo by zero", node=node)
        # Python floor division: z3 div is Euclidean for y>0, adjust for y<0
        q = z3.If(y > 0, x / y, -((-x) / (-y)) if False else (0 - ((0 - x) / (0 - y))))
        # for y<0: floor(x/y) = floor((-x)/(-y)) and z3's (-x) div (-y) with -y>0 is floor
        q = z3.If(y > 0, x / y, (0 - x) / (0 - y))
        if isinstance(op, ast.FloorDiv): return SInt(q)
        return SInt(x - q * y)
    self.unsupported("binary %s on %r, %r" % (type(op).__name__, a, b), node)

  # ---- expression evaluation ------------------------------------------------------------------
  def ev(self, node, fr):
    m = getattr(self, "ev_" + type(node).__name__, None)
    if m is None:
      self.unsupported("expression %s" % type(node).__name__, node)
    return m(node, fr)

  def ev_Constant(self, node, fr): return node.value

  def ev_Name(self, node, fr):
    return fr.lookup(node.id, self, node)

  def ev_Tuple(self, node, fr):
    out = []
    for e in node.elts:
      if isinstance(e, ast.Starred):
        v = self.ev(e.value, fr)
        if isinstance(v, Sym): self.unsupported("starred symbolic sequence", node)
        out.extend(v)
      else:
        out.append(self.ev(e, fr))
    return tuple(out)

  def ev_List(self, node, fr): return list(self.ev_Tuple(node, fr))

  def ev_Set(self, node, fr):
    vals = [self.ev(e, fr) for e in node.elts]
    if any(is_symbolic(v) for v in vals):
      shapes = [shape_of(self.narrow(v)) for v in vals]
      if shapes[0] is None or len(shapes[0].sorts()) != 1 or any(repr(s) != repr(shapes[0]) for s in shapes):
        self.unsupported("set display of symbolic values", node)
      out = V.SetOf(shapes[0]).build(V.SetOf(shapes[0]).leaves(set()))
      for v in vals: out = out.add(self.narrow(v))
      return out
    return set(vals)

  def ev_Dict(self, node, fr):
    d = {}
    for k, v in zip(node.keys, node.values):
      if k is None: self.unsupported("dict unpacking", node)
      kk = self.ev(k, fr)
      if is_symbolic(kk): self.unsupported("dict display with symbolic key", node)
      d[kk] = self.ev(v, fr)
    return d

  def ev_UnaryOp(self, node, fr):
    v = self.ev(node.operand, fr)
    if isinstance(node.op, ast.Not):
      t = self.truth(v)
      return (not t) if isinstance(t, bool) else self.wrap_bool(z3.Not(t))
    if isinstance(node.op, ast.USub):
      if not is_symbolic(v): return -v
      return SInt(-self.int_term(v))
    if isinstance(node.op, ast.UAdd):
      if not is_symbolic(v): return +v
      return SInt(self.int_term(v))
    self.unsupported("unary op", node)

  def ev_BinOp(self, node, fr):
    return self.binop(node.op, self.ev(node.left, fr), self.ev(node.right, fr), node)

  def ev_BoolOp(self, node, fr):
    is_and = isinstance(node.op, ast.And)
    if self.spec:
      terms = []
      for e in node.values:
        t = self.truth(self.ev(e, fr))
        if isinstance(t, bool):
          if t != is_and: return t        # short circuit on a concrete decisive operand
          continue
        terms.append(t)
      if not terms: return is_and
      return self.wrap_bool(z3.And(*terms) if is_and else z3.Or(*terms))
    v = None
    for i, e in enumerate(node.values):
      v = self.ev(e, fr)
      if i == len(node.values) - 1:
        return v
      if self.branch(v) != is_and:
        return v
    return v

  def ev_IfExp(self, node, fr):
    if self.spec:
      c = self.truth(self.ev(node.test, fr))
      if isinstance(c, bool):
        return self.ev(node.body if c else node.orelse, fr)
      return self.ite(c, self.ev(node.body, fr), self.ev(node.orelse, fr))
    if self.branch(self.ev(node.test, fr)):
      return self.ev(node.body, fr)
    return self.ev(node.orelse, fr)

  def ite(self, c, a, b):
    if isinstance(c, bool): return a if c else b
    if a is b: return a
    if isinstance(a, tuple) and isinstance(b, tuple) and len(a) == len(b):
      return tuple(self.ite(c, x, y) for x, y in zip(a, b))
    if (a is None) != (b is None) or isinstance(a, SOpt) or isinstance(b, SOpt):
      o = a if a is not None and not isinstance(a, SOpt) else b
      inner = a.shape if isinstance(a, SOpt) else b.shape if isinstance(b, SOpt) else shape_of(o)
      sh = V.Opt(inner)
      la, lb = sh.leaves(a), sh.leaves(b)
      return sh.build([z3.If(c, x, y) for x, y in zip(la, lb)])
    sh = shape_of(a)
    if sh is None or isinstance(sh, V.Tup): sh = shape_of(b)
    if sh is None: self.unsupported("if-then-else over %r / %r" % (a, b))
    la, lb = sh.leaves(a), sh.leaves(b)
    return sh.build([z3.If(c, x, y) for x, y in zip(la, lb)])

  def ev_Compare(self, node, fr):
    left = self.ev(node.left, fr)
    acc = True
    for i, (op, rn) in enumerate(zip(node.ops, node.comparators)):
      right = self.ev(rn, fr)
      r = self.compare(op, left, right, node)
      if r is False: return False
      if r is not True:
        if self.spec or i == len(node.ops) - 1 and acc is True:
          acc = r if acc is True else z3.And(acc, r)
        else:
          # code mode, chained comparison: python evaluates the next operand only if true
          if not self.ctx.decide(r): return False
      left = right
    return self.wrap_bool(acc)

  def compare(self, op, a, b, node=None):
    """returns python bool or z3 Bool"""
    if isinstance(op, ast.Eq): return self.eq(a, b)
    if isinstance(op, ast.NotEq):
      r = self.eq(a, b)
      return (not r) if isinstance(r, bool) else z3.Not(r)
    if isinstance(op, ast.Lt): return self.less(a, b, node)
    if isinstance(op, ast.Gt): return self.less(b, a, node)
    if isinstance(op, (ast.LtE, ast.GtE)):
      if isinstance(op, ast.GtE): a, b = b, a
      a, b = self.unwrap(a, node, "<="), self.unwrap(b, node, "<=")
      if _is_num(a) and _is_num(b) and (is_symbolic(a) or is_symbolic(b)):
        return self.int_term(a) <= self.int_term(b)
      if not is_symbolic(a) and not is_symbolic(b):
        try: return a <= b
        except TypeError as e: self.raise_(TypeError, str(e), node=node)
      l, e = self.less(a, b, node), self.eq(a, b)
      return z3.Or(self._bt(l), self._bt(e))
    if isinstance(op, ast.In): return self.contains(b, a, node)
    if isinstance(op, ast.NotIn):
      r = self.contains(b, a, node)
      return (not r) if isinstance(r, bool) else z3.Not(r)
    if isinstance(op, (ast.Is, ast.IsNot)):
      r = self.is_(a, b)
      if isinstance(op, ast.IsNot): r = (not r) if isinstance(r, bool) else z3.Not(r)
      return r
    self.unsupported("comparison op", node)

  def is_(self, a, b):
    if a is None or b is None:
      o = b if a is None else a
      if o is None: return True
      if isinstance(o, SOpt): return o.isnone
      return False
    if isinstance(a, (bool, SBool)) and isinstance(b, (bool, SBool)):
      return self.eq(a, b)
    if not is_symbolic(a) and not is_symbolic(b): return a is b
    for x, y in ((a, b), (b, a)):
      # a (symbolic) set / dict / list is never the same object as a value of another kind, e.g.
      # a sentinel `object()`
      if isinstance(x, (SSet, SMap, SSeq)) and \
          not isinstance(y, (Sym, set, frozenset, dict, list, tuple, ObjVal)):
        return False
      # ... and no int / bool / str / opaque value is a bare `object()` sentinel
      if isinstance(x, Sym) and not isinstance(x, SOpt) and type(y) is object:
        return False
    self.unsupported("`is` on symbolic values")

  # -- attribute / subscript ---------------------------------------------------------------
  def lookup_method(self, obj, name):
    cls = obj.real_cls
    if cls is None and self.contract:
      cls = self.contract.classes.get(obj.cls_name)
    if cls is None: return None
    for k in cls.__mro__:
      if name in k.__dict__:
        a = k.__dict__[name]
        if isinstance(a, property):
          return ("property", self.func_from_native(a.fget, k))
        if isinstance(a, (staticmethod, classmethod)):
          self.unsupported("static/class method %s" % name)
        if isinstance(a, types.FunctionType):
          return BoundMethod(obj, self.func_from_native(a, k))
        return ("value", a)
    return None

  def func_from_native(self, f, cls=None):
    """FuncVal for a real function object defined in a repository file (source re-read)."""
    from .extract import funcdef_for
    # run-time contract wrappers installed by the bounded tier (functools.wraps) are looked through:
    # what is interpreted is always the repository's own function
    while getattr(f, "__wrapped__", None) is not None: f = f.__wrapped__
    node, module = funcdef_for(f)
    INTERPRETED[f.__module__ + ":" + f.__qualname__] = node
    return FuncVal(node, module, None, f.__qualname__, cls)

  def ev_Attribute(self, node, fr):
    base = self.ev(node.value, fr)
    return self.getattr(base, node.attr, node)

  def getattr(self, base, name, node=None):
    if isinstance(base, SuperRef):
      mro = base.obj.real_cls.__mro__
      for k in mro[mro.index(base.after) + 1:]:
        if name in k.__dict__:
          a = k.__dict__[name]
          if isinstance(a, types.FunctionType):
            return BoundMethod(base.obj, self.func_from_native(a, k))
          self.unsupported("super().%s is not a plain method" % name, node)
      self.raise_(AttributeError, "'super' object has no attribute %r" % name, node=node)
    if isinstance(base, ObjVal):
      if name in base.fields:
        v = base.fields[name]
        if isinstance(v, SelfModel):
          return Model(v.name, lambda ip, *a, **k: v.fn(ip, base, *a, **k))
        return v
      m = self.lookup_method(base, name)
      if m is None:
        self.unsupported("attribute %s of modelled %s" % (name, base.cls_name), node)
      if isinstance(m, tuple):
        if m[0] == "property": return self.call(BoundMethod(base, m[1]), [], {})
        return m[1]
      return m
    if isinstance(base, SOpt):
      # attribute of T|None: None has none of the attributes used in the subset
      if not self.spec and self.ctx.decide(base.isnone):
        self.raise_(AttributeError, "'NoneType' object has no attribute %r" % name, node=node)
      return self.getattr(base.val, name, node)
    if isinstance(base, SOpq) and self.contract and \
        ("attr", base.kind, name) in self.contract.hooks:
      return self.contract.hooks[("attr", base.kind, name)](self, base)
    if isinstance(base, Sym) or isinstance(base, (list, tuple, dict, set, str)):
      return MethodRef(base, name)
    try:
      return getattr(base, name)
    except AttributeError as e:
      self.raise_(AttributeError, str(e), node=node)

  def ev_Subscript(self, node, fr):
    base = self.ev(node.value, fr)
    if isinstance(node.slice, ast.Slice):
      lo = self.ev(node.slice.lower, fr) if node.slice.lower else None
      hi = self.ev(node.slice.upper, fr) if node.slice.upper else None
      if node.slice.step is not None: self.unsupported("slice step", node)
      return self.models.slice_(self, base, lo, hi, node)
    idx = self.ev(node.slice, fr)
    return self.getitem(base, idx, node)

  def getitem(self, base, idx, node=None):
    if isinstance(base, SSeq):
      i = self.int_term(idx)
      if self.spec:
        return base.at(i)
      n = base.length
      if self.ctx.decide(z3.And(i >= 0, i < n)):
        return base.at(i)
      if self.ctx.decide(z3.And(i < 0, i >= -n)):
        return base.at(i + n)
      self.raise_(IndexError, "list index out of range", node=node)
    if isinstance(base, SMap):
      if isinstance(idx, SOpt) and not isinstance(base.key, V.Opt):
        if not (self.spec or self.in_ghost) and self.ctx.decide(idx.isnone):
          self.raise_(KeyError, None, node=node)
        idx = idx.val
      if self.spec or self.in_ghost: return base.at(idx)
      if self.ctx.decide(base.has(idx)):
        return base.at(idx)
      self.raise_(KeyError, idx, node=node)
    if isinstance(base, (list, tuple)):
      if is_symbolic(idx):
        i = self.int_term(idx)
        if len(base) <= 16 and not self.spec:
          for k in range(len(base)):
            if self.ctx.decide(z3.Or(i == k, i == k - len(base))):
              return base[k]
          self.raise_(IndexError, "index out of range", node=node)
        if self.spec and base:
          out = base[-1]
          for k in range(len(base) - 2, -1, -1):
            out = self.ite(i == k, base[k], out)
          return out
        self.unsupported("symbolic index into concrete sequence", node)
      try:
        return base[idx]
      except (IndexError, TypeError) as e:
        self.raise_(type(e), *e.args, node=node)
    if isinstance(base, dict):
      if is_symbolic(idx):
        if self.spec: self.unsupported("symbolic key into concrete dict in a spec", node)
        for k, v in base.items():
          e = self.eq(k, idx)
          if e is False: continue
          if e is True or self.ctx.decide(e): return v
        self.raise_(KeyError, idx, node=node)
      try:
        return base[idx]
      except (KeyError, TypeError) as e:
        self.raise_(type(e), *e.args, node=node)
    if isinstance(base, Model) and getattr(base, "getitem", None):
      return base.getitem(self, idx)
    if isinstance(base, ObjVal):
      if isinstance(base.fields.get("__getitem__"), SelfModel):
        return base.fields["__getitem__"].fn(self, base, idx)
      m = self.lookup_method(base, "__getitem__")
      if m is not None: return self.call(m, [idx], {})
    if not is_symbolic(base) and not is_symbolic(idx):
      try:
        return base[idx]
      except Exception as e:
        self.raise_(type(e), *e.args, node=node)
    self.unsupported("subscript of %r" % (base,), node)

  # -- calls -------------------------------------------------------------------------------------
  def ev_Call(self, node, fr):
    # special forms of the spec language
    if isinstance(node.func, ast.Name) and node.func.id in _SPEC_FORMS and \
        fr.is_spec_name(node.func.id):
      return getattr(self, "spec_" + node.func.id)(node, fr)
    if isinstance(node.func, ast.Name) and node.func.id == "super" and len(node.args) == 2 \
        and "super" not in fr.env:
      cls, obj = self.ev(node.args[0], fr), self.ev(node.args[1], fr)
      if isinstance(obj, ObjVal) and obj.real_cls is not None and isinstance(cls, type) and \
          cls in obj.real_cls.__mro__:
        return SuperRef(obj, cls)
      self.unsupported("super() of %r" % (obj,), node)
    fn = self.ev(node.func, fr)
    args, kwargs = [], {}
    for a in node.args:
      if isinstance(a, ast.Starred):
        v = self.ev(a.value, fr)
        if isinstance(v, Sym):
          args.append(StarArgs(v))
        else:
          args.extend(v)
      else:
        args.append(self.ev(a, fr))
    for k in node.keywords:
      if k.arg is None:
        v = self.ev(k.value, fr)
        if not isinstance(v, dict): self.unsupported("** of non-dict", node)
        kwargs.update(v)
      else:
        kwargs[k.arg] = self.ev(k.value, fr)
    self._call_site = (fr, node, list(args), dict(kwargs))
    if isinstance(fn, MethodRef):
      new_base, result = self.models.call_method(self, fn.base, fn.name, args, kwargs, node)
      if new_base is not fn.base and new_base is not None:
        self.assign_to(node.func.value, new_base, fr, mutation=True)
      return result
    return self.call(fn, args, kwargs, node)

  def call(self, fn, args, kwargs, node=None):
    if isinstance(fn, tuple) and fn and fn[0] == "property":
      self.unsupported("calling a property", node)
    if isinstance(fn, Model):
      self.ctx.assumed_contracts.add(fn.name)
      return fn.fn(self, *args, **kwargs)
    if isinstance(fn, BoundMethod):
      return self.call_function(fn.func, [fn.obj] + list(args), kwargs, node)
    if isinstance(fn, FuncVal):
      return self.call_function(fn, args, kwargs, node)
    if isinstance(fn, MethodRef):
      _, result = self.models.call_method(self, fn.base, fn.name, args, kwargs, node)
      return result
    m = self.models.lookup_native(fn)
    if m is not None:
      if m.name not in ("len", "isinstance", "range", "enumerate", "zip", "tuple", "list",
                        "min", "max", "abs", "bool", "int", "reversed", "iter"):
        self.ctx.assumed_contracts.add(m.name)
      return m.fn(self, *args, **kwargs)
    if isinstance(fn, types.FunctionType) and self.in_repo(fn):
      return self.call_function(self.func_from_native(fn), args, kwargs, node)
    if isinstance(fn, types.MethodType) and self.in_repo(fn.__func__):
      return self.call_function(self.func_from_native(fn.__func__), [fn.__self__] + list(args),
                                kwargs, node)
    if isinstance(fn, type) and issubclass(fn, tuple) and hasattr(fn, "_fields") and \
        (any(is_symbolic(a) or isinstance(a, ObjVal) for a in args) or
         any(is_symbolic(a) for a in kwargs.values())):
      vals = dict(zip(fn._fields, args)); vals.update(kwargs)
      if set(vals) != set(fn._fields): self.raise_(TypeError, "bad namedtuple arguments")
      return ObjVal(fn.__name__, vals, None)
    if isinstance(fn, type) and issubclass(fn, BaseException):
      if any(isinstance(a, StarArgs) for a in args): self.unsupported("exception(*sym)", node)
      return ExcVal(fn, tuple(args))
    if not any(is_symbolic(a) or isinstance(a, (ObjVal, FuncVal, StarArgs)) for a in args) and \
        not any(is_symbolic(a) or isinstance(a, (ObjVal, FuncVal)) for a in kwargs.values()):
      try:
        return fn(*args, **kwargs)
      except Exception as e:
        self.raise_(type(e), *e.args, node=node)
    self.unsupported("call of %r with symbolic arguments" % (fn,), node)

  def in_repo(self, f):
    from .extract import in_repo
    return in_repo(f)

  def call_function(self, fv, args, kwargs, node=None):
    c = self.registry.get(fv.qualname)
    if c is not None and c.modular and (self.contract is None or c is not self.contract):
      return self.call_by_contract(c, fv, args, kwargs, node)
    self.depth += 1
    if self.depth > self.MAX_DEPTH:
      self.unsupported("call depth exceeded at %s" % fv.qualname, node)
    try:
      fr = Frame(fv, self)
      fr.bind_args(fv.node.args, args, kwargs, self, node)
      self.bind_param_aliases(fr, node)
      if isinstance(fv.node, ast.Lambda):
        return self.ev(fv.node.body, fr)
      gen = _is_generator(fv.node)
      if gen:
        fr.env["__yielded__"] = []
      try:
        self.exec_block(fv.node.body, fr)
      except _Return as r:
        if gen: return fr.env["__yielded__"]
        return r.value
      if gen: return fr.env["__yielded__"]
      return None
    finally:
      self.depth -= 1

  def bind_param_aliases(self, fr, node):
    """A mutable container passed as an argument is the same object in caller and callee: a
    parameter bound to the value of an lvalue expression of the call site aliases it."""
    site = getattr(self, "_call_site", None)
    self._call_site = None
    if site is None or site[1] is not node or not isinstance(node, ast.Call): return
    cfr, _, avals, kvals = site
    pairs = []
    k = 0
    for a in node.args:
      if isinstance(a, ast.Starred): return
      if k < len(avals): pairs.append((a, avals[k]))
      k += 1
    for kw in node.keywords:
      if kw.arg is not None and kw.arg in kvals: pairs.append((kw.value, kvals[kw.arg]))
    for a, val in pairs:
      if not isinstance(val, (SSet, SSeq, SMap)): continue
      if not isinstance(a, (ast.Name, ast.Attribute, ast.Subscript)): continue
      if not all(isinstance(n, (ast.Name, ast.Attribute, ast.Subscript, ast.Constant, ast.Load))
                 for n in ast.walk(a)): continue
      for pname, pval in fr.env.items():
        if pval is val:
          fr.aliases[pname] = ("lvalue", cfr, a)

  def call_by_contract(self, c, fv, args, kwargs, node):
    """Modular call: assert requires, havoc what the callee may modify, assume ensures of the
    callee's contract.  Frame: the callee may assign the fields of the modelled objects it is
    given (all fields its contract declares a shape for are havocked, in place - the caller's
    references see the new state); old(...) in its ensures is the state at the call."""
    from .contract import _snapshot
    fr = Frame(fv, self)
    fr.bind_args(fv.node.args, args, kwargs, self, node)
    env = dict(fr.env)
    for name, clause in c.requires.items():
      g = self.eval_spec(clause, env)
      self.ctx.oblige("%s.pre.%s@%s" % (self.contract.prefix if self.contract else "", name,
                                         fv.qualname), self._bt(g), "call-pre",
                      getattr(node, "lineno", None))
    old_env = {k: _snapshot(v) for k, v in env.items()}
    def havoc(obj, shape, tag):
      for f, fsh in shape.fields.items():
        cur = obj.fields.get(f)
        if isinstance(fsh, V.Obj) and isinstance(cur, ObjVal):
          havoc(cur, fsh, "%s_%s" % (tag, f))
        else:
          self.check_loop_frame("%s.%s" % (obj.cls_name, f), obj=obj)
          obj.fields[f] = self.ctx.fresh(fsh, "%s_%s_after_%s" % (tag, f, fv.qualname.replace(".", "_")))
    for pname, shape in c.params.items():
      v = env.get(pname)
      if isinstance(shape, V.Obj) and isinstance(v, ObjVal):
        havoc(v, shape, pname)
      elif isinstance(v, (SSet, SMap, SSeq)) and pname in getattr(c, "modifies", ()):
        self.unsupported("modular call of %s: a container passed by reference is modified" % fv.qualname, node)
    res = self.ctx.fresh(c.returns, "ret_" + fv.qualname.replace(".", "_")) \
        if c.returns is not None else None
    env2 = dict(env); env2["result"] = res
    for name, clause in c.ensures.items():
      self.ctx.assume(self._bt(self.eval_spec(clause, env2, old_env=old_env)))
    self.ctx.assumed_contracts.add("contract:" + fv.qualname)
    return res

  # -- comprehensions / lambda ---------------------------------------------------------------
  def ev_Lambda(self, node, fr):
    return FuncVal(node, fr.func.module if fr.func else None, fr, "<lambda>")

  def ev_ListComp(self, node, fr): return self.models.comprehension(self, node, fr, "list")
  def ev_GeneratorExp(self, node, fr): return self.models.comprehension(self, node, fr, "gen")
  def ev_SetComp(self, node, fr): return self.models.comprehension(self, node, fr, "set")
  def ev_DictComp(self, node, fr): return self.models.comprehension(self, node, fr, "dict")

  def ev_Starred(self, node, fr): self.unsupported("starred expression", node)

  def ev_JoinedStr(self, node, fr):
    parts = []
    for v in node.values:
      if isinstance(v, ast.Constant): parts.append(v.value)
      else:
        x = self.ev(v.value, fr)
        if is_symbolic(x): return SOpq(self.ctx.const("fstr", V.opaque_sort("StrMsg")), "StrMsg")
        parts.append(format(x))
    return "".join(parts)

  # -- spec special forms --------------------------------------------------------------------------
  def _quant(self, node, fr, is_forall):
    *vars_, cond, body = node.args
    names = [v.id for v in vars_]
    if self.ctx.concrete:
      return self._quant_concrete(names, cond, body, fr, is_forall)
    sub = Frame(fr.func, self, parent=fr)
    bound = []
    for n in names:
      if "__" in n:
        kind = n.split("__")[1]
        c = z3.Const("%s?%d" % (n, self._qid()), V.opaque_sort(kind))
        bound.append(c); sub.env[n] = SOpq(c, kind)
      else:
        c = z3.Int("%s?%d" % (n, self._qid()))
        bound.append(c); sub.env[n] = SInt(c)
    old = self.spec; self.spec = True
    try:
      c = self._bt(self.truth(self.ev(cond, sub)))
      try:
        b = self._bt(self.truth(self.ev(body, sub)))
      except Unsupported:
        # The body left the supported subset (e.g. indexing a concrete EMPTY list with the bound
        # variable).  If the guard ALONE - without any path condition - has no solution, the
        # quantifier's value does not depend on the body: forall over an empty range is True,
        # exists is False.  Anything else stays unsupported (undecided, never passed).
        s = z3.Solver(); s.set("timeout", 2000); s.add(c)
        if s.check() != z3.unsat: raise
        return is_forall
    finally:
      self.spec = old
    if is_forall: return self.wrap_bool(z3.ForAll(bound, z3.Implies(c, b)))
    return self.wrap_bool(z3.Exists(bound, z3.And(c, b)))

  _qcounter = [0]
  def _qid(self):
    Interp._qcounter[0] += 1
    return Interp._qcounter[0]

  def _quant_concrete(self, names, cond, body, fr, is_forall):
    """All-concrete evaluation.  The range of a bound variable is read off the comparison chains
    of `cond` that mention it (nearest evaluable operand on each side, taken inclusively: `cond`
    itself is evaluated for every candidate, so an over-approximated range is harmless).  A
    variable without such a chain ranges over the integers occurring in the environment."""
    chains = [n for n in ast.walk(cond) if isinstance(n, ast.Compare)]
    def try_ev(e, sub):
      try:
        v = self.ev(e, sub)
      except Exception:
        return None
      return v if isinstance(v, int) and not isinstance(v, bool) else None
    def rng(name, sub):
      lo = hi = None
      for n in chains:
        ops = [n.left] + list(n.comparators)
        for p, e in enumerate(ops):
          if not (isinstance(e, ast.Name) and e.id == name): continue
          if not all(isinstance(o, (ast.Lt, ast.LtE, ast.Eq)) for o in n.ops): continue
          for q in range(p - 1, -1, -1):
            v = try_ev(ops[q], sub)
            if v is not None:
              lo = v if lo is None else max(lo, v)
              break
          for q in range(p + 1, len(ops)):
            v = try_ev(ops[q], sub)
            if v is not None:
              hi = v if hi is None else min(hi, v)
              break
      if lo is not None and hi is not None:
        return range(lo, hi + 1)
      return self._int_universe(sub)
    def go(i, sub):
      if i == len(names):
        if not self.truth(self.ev(cond, sub)): return is_forall
        return bool(self.truth(self.ev(body, sub)))
      for v in rng(names[i], sub):
        s2 = Frame(fr.func, self, parent=sub); s2.env[names[i]] = v
        r = go(i + 1, s2)
        if r != is_forall: return r
      return is_forall
    return go(0, Frame(fr.func, self, parent=fr))

  def _int_universe(self, fr):
    seen = set()
    def walk(x, d=0):
      if d > 6 or isinstance(x, bool): return
      if isinstance(x, int): seen.add(x)
      elif isinstance(x, (list, tuple, set, frozenset)):
        for y in x: walk(y, d + 1)
      elif isinstance(x, dict):
        for k, y in x.items(): walk(k, d + 1); walk(y, d + 1)
      elif hasattr(x, "__dict__") and not callable(x):
        for y in vars(x).values(): walk(y, d + 1)
    for v in fr.flat_env().values(): walk(v)
    for v in list(seen): seen.update((v - 1, v + 1))
    seen.update((-1, 0, 1))
    if len(seen) > 400: self.unsupported("integer universe too large for concrete quantifier")
    return sorted(seen)

  def spec_forall(self, node, fr): return self._quant(node, fr, True)
  def spec_exists(self, node, fr): return self._quant(node, fr, False)

  def spec_implies(self, node, fr):
    a = self.truth(self.ev(node.args[0], fr))
    if a is False: return True
    b = self.truth(self.ev(node.args[1], fr))
    if a is True: return self.wrap_bool(b)
    return self.wrap_bool(z3.Implies(a, self._bt(b)))

  def spec_old(self, node, fr):
    sub = Frame(fr.func, self, parent=None)
    sub.env = dict(self.old_env)
    sub.spec_names = fr.root().spec_names
    return self.ev(node.args[0], sub)

  def spec_ite(self, node, fr):
    c = self.truth(self.ev(node.args[0], fr))
    if isinstance(c, bool):
      return self.ev(node.args[1] if c else node.args[2], fr)
    return self.ite(c, self.ev(node.args[1], fr), self.ev(node.args[2], fr))

  def eval_spec(self, clause, env, old_env=None):
    """Evaluates a clause (python expression text) in spec mode; returns python bool or z3 Bool."""
    tree = clause if isinstance(clause, ast.AST) else ast.parse(clause.strip(), mode="eval").body
    fr = Frame(None, self)
    # a local of the function named like a spec form (`old = ...`) must not shadow the form
    fr.env = {k: v for k, v in env.items() if k not in _SPEC_FORMS}
    fr.spec_names = True
    if self.contract is not None:
      for k, v in self.contract.spec_env(self, fr).items():
        fr.env.setdefault(k, v)
    saved_old = self.old_env
    if old_env is not None: self.old_env = old_env
    old = self.spec; self.spec = True
    try:
      return self.truth(self.ev(tree, fr))
    finally:
      self.spec = old
      self.old_env = saved_old

  # ---- statements ---------------------------------------------------------------------------
  def exec_block(self, stmts, fr):
    for s in stmts:
      self.exec_stmt(s, fr)

  def exec_stmt(self, node, fr):
    m = getattr(self, "st_" + type(node).__name__, None)
    if m is None:
      self.unsupported("statement %s" % type(node).__name__, node)
    return m(node, fr)

  def st_Pass(self, node, fr): pass
  def st_Break(self, node, fr): raise _Break()
  def st_Continue(self, node, fr): raise _Continue()
  def st_Import(self, node, fr): self.unsupported("import inside function", node)
  def st_Global(self, node, fr): self.unsupported("global statement", node)

  def st_Expr(self, node, fr):
    if isinstance(node.value, ast.Constant): return       # docstring
    if isinstance(node.value, (ast.Yield, ast.YieldFrom)):
      if isinstance(node.value, ast.YieldFrom): self.unsupported("yield from", node)
      v = self.ev(node.value.value, fr) if node.value.value else None
      self.do_yield(v, fr)
      return
    if _is_log_call(node.value): return                   # dropped by extraction (DESIGN 2.2)
    self.ev(node.value, fr)

  def do_yield(self, v, fr):
    """The values a generator yields are collected in the ghost sequence `__yielded__`."""
    f = fr
    while f is not None and "__yielded__" not in f.env: f = f.parent
    if f is None: self.unsupported("yield outside generator")
    cur = f.env["__yielded__"]
    if isinstance(cur, SSeq): f.env["__yielded__"] = cur.append(v)
    else: cur.append(v)

  def st_Return(self, node, fr):
    raise _Return(self.ev(node.value, fr) if node.value is not None else None)

  def propagate(self, al, v):
    if al[0] == "lvalue":
      _, cfr, cast = al
      self.assign_to(cast, v, cfr, mutation=True)
    else:
      _, cfr, base_ast, key = al
      base = self.ev(base_ast, cfr)
      if isinstance(base, SMap):
        if self.ctx.decide(self._bt(self.contains(base, key))):
          self.assign_to(base_ast, base.store(key, v), cfr, mutation=True)
      elif isinstance(base, dict) and not is_symbolic(key):
        if key in base: base[key] = v
      else:
        self.unsupported("write-back into %r" % (base,))

  def entry_alias(self, e, fr):
    """(base lvalue AST, key value) when expression e reads one entry of a dict: d[k], d.get(k..),
    d.setdefault(k..) with d a name / attribute chain."""
    simple = lambda a: all(isinstance(n, (ast.Name, ast.Attribute, ast.Load)) for n in ast.walk(a))
    if isinstance(e, ast.Subscript) and not isinstance(e.slice, ast.Slice) and simple(e.value):
      return e.value, e.slice
    if isinstance(e, ast.Call) and isinstance(e.func, ast.Attribute) and e.args and \
        e.func.attr in ("get", "setdefault") and simple(e.func.value):
      return e.func.value, e.args[0]
    return None

  def st_Assign(self, node, fr):
    v = self.ev(node.value, fr)
    for t in node.targets:
      self.assign_to(t, v, fr)
    if len(node.targets) == 1 and isinstance(node.targets[0], ast.Name) and \
        isinstance(v, (SSet, SSeq, SMap)):
      ea = self.entry_alias(node.value, fr)
      if ea is not None and all(isinstance(n, (ast.Name, ast.Attribute, ast.Constant, ast.Load))
                                for n in ast.walk(ea[1])):
        base = self.ev(ea[0], fr)
        if isinstance(base, (SMap, dict)):
          key = self.ev(ea[1], fr)
          if isinstance(base, SMap) and isinstance(key, SOpt) and not isinstance(base.key, V.Opt):
            key = self.narrow(key)
          if key is not None:
            fr.aliases[node.targets[0].id] = ("entry", fr, ea[0], key)

  def st_AnnAssign(self, node, fr):
    if node.value is not None:
      self.assign_to(node.target, self.ev(node.value, fr), fr)

  def st_AugAssign(self, node, fr):
    cur = self.ev(_load(node.target), fr)
    if isinstance(node.op, ast.Add) and isinstance(cur, (SSeq, list)):
      new, _ = self.models.call_method(self, cur, "extend", [self.ev(node.value, fr)], {}, node)
      if new is None: new = cur
    else:
      new = self.binop(node.op, cur, self.ev(node.value, fr), node)
      self.assign_to(node.target, new, fr)
      return
    self.assign_to(node.target, new, fr, mutation=True)

  def assign_to(self, t, v, fr, mutation=False):
    """Binds target t to v.  mutation=True marks the write-back of an in-place change of the object
    that t denotes (as opposed to a rebinding): it is propagated to everything recorded as an alias
    of that object - the caller's argument expression for a parameter, the dict entry a local was
    read from - which is how the reference semantics of Python's mutable containers is kept on
    top of immutable terms."""
    if isinstance(t, ast.Name):
      if mutation and not self.in_ghost: self.check_loop_frame(t.id, frame=fr, name=t.id)
      fr.store(t.id, v)
      if mutation:
        al = fr.aliases.get(t.id)
        if al is not None: self.propagate(al, v)
      else:
        fr.aliases.pop(t.id, None)
    elif isinstance(t, (ast.Tuple, ast.List)):
      if isinstance(v, Sym):
        if isinstance(v, SSeq):
          n = len(t.elts)
          if not self.spec and not self.ctx.decide(v.length == n):
            self.raise_(ValueError, "wrong number of values to unpack")
          v = [v.at(z3.IntVal(i)) for i in range(n)]
        else:
          self.unsupported("unpacking %r" % (v,), t)
      v = list(v)
      if len(v) != len(t.elts): self.raise_(ValueError, "wrong number of values to unpack")
      for tt, vv in zip(t.elts, v): self.assign_to(tt, vv, fr)
    elif isinstance(t, ast.Attribute):
      base = self.ev(t.value, fr)
      if isinstance(base, ObjVal):
        if not self.in_ghost: self.check_loop_frame("%s.%s" % (base.cls_name, t.attr), obj=base)
        base.fields[t.attr] = v
      elif is_symbolic(base): self.unsupported("attribute store on symbolic", t)
      else: setattr(base, t.attr, v)
    elif isinstance(t, ast.Subscript):
      base = self.ev(t.value, fr)
      if isinstance(t.slice, ast.Slice): self.unsupported("slice assignment", t)
      idx = self.ev(t.slice, fr)
      if isinstance(base, SSeq):
        i = self.int_term(idx); n = base.length
        if self.ctx.decide(z3.And(i >= 0, i < n)): new = base.store(i, v)
        elif self.ctx.decide(z3.And(i < 0, i >= -n)): new = base.store(i + n, v)
        else: self.raise_(IndexError, "list assignment index out of range", node=t)
        self.assign_to(t.value, new, fr, mutation=True)
      elif isinstance(base, SMap):
        if isinstance(idx, SOpt) and not isinstance(base.key, V.Opt):
          idx = self.narrow(idx)
          if idx is None: self.unsupported("None as key of a dict keyed by %r" % (base.key,), t)
        if not mutation:
          # d[k] = other object: locals read from an entry of d no longer denote what d holds
          dump = ast.dump(t.value)
          for n, al in list(fr.aliases.items()):
            if al[0] == "entry" and ast.dump(al[2]) == dump: del fr.aliases[n]
        self.assign_to(t.value, base.store(idx, v), fr, mutation=True)
      elif isinstance(base, (list, dict)) and not is_symbolic(idx):
        try: base[idx] = v
        except (IndexError, TypeError) as e: self.raise_(type(e), *e.args, node=t)
      else:
        self.unsupported("subscript store on %r" % (base,), t)
    elif isinstance(t, ast.Call) and isinstance(t.func, ast.Attribute) and \
        t.func.attr in ("setdefault", "get") and t.args and \
        all(isinstance(n, (ast.Name, ast.Attribute, ast.Constant, ast.Load, ast.Call, ast.Tuple))
            for a in [t.func.value, t.args[0]] for n in ast.walk(a)) and \
        not any(isinstance(n, ast.Call) for a in [t.func.value, t.args[0]] for n in ast.walk(a)):
      # write-back of an in-place mutation of the object returned by d.setdefault(k, dflt) /
      # d.get(k, dflt): that object is the one stored under k when k is present (after
      # setdefault it always is); a default that was not stored is a temporary.
      base = self.ev(t.func.value, fr)
      k = self.ev(t.args[0], fr)
      if isinstance(base, SMap) and isinstance(k, SOpt) and not isinstance(base.key, V.Opt):
        k = self.narrow(k)
        if k is None: return               # None is not a key: the mutated object was the default
      if isinstance(base, SMap):
        if t.func.attr == "setdefault" or self.ctx.decide(self._bt(self.contains(base, k))):
          self.assign_to(t.func.value, base.store(k, v), fr, mutation=True)
      elif isinstance(base, dict) and not is_symbolic(k):
        if k in base: base[k] = v
      else:
        self.unsupported("write-back through %s of %r" % (t.func.attr, base), t)
    else:
      self.unsupported("assignment target %s" % type(t).__name__, t)

  def st_If(self, node, fr):
    if self.branch(self.ev(node.test, fr)):
      self.exec_block(node.body, fr)
    else:
      self.exec_block(node.orelse, fr)

  def st_Assert(self, node, fr):
    if not self.branch(self.ev(node.test, fr)):
      msg = self.ev(node.msg, fr) if node.msg is not None else None
      raise PyExc(AssertionError, (msg,) if msg is not None else (), node.lineno)

  def st_Raise(self, node, fr):
    if node.exc is None:
      if fr.current_exc is None: self.unsupported("bare raise outside handler", node)
      raise fr.current_exc
    e = self.ev(node.exc, fr)
    if isinstance(e, ExcVal): raise PyExc(e.cls, e.args, node.lineno)
    if isinstance(e, type) and issubclass(e, BaseException): raise PyExc(e, (), node.lineno)
    self.unsupported("raise of %r" % (e,), node)

  def st_Try(self, node, fr):
    try:
      try:
        self.exec_block(node.body, fr)
      except PyExc as e:
        for h in node.handlers:
          if h.type is None:
            match = True
          else:
            t = self.ev(h.type, fr)
            match = issubclass(e.exc_cls, t if isinstance(t, tuple) else (t,))
          if match:
            if h.name: fr.store(h.name, ExcVal(e.exc_cls, e.exc_args))
            saved = fr.current_exc; fr.current_exc = e
            try:
              self.exec_block(h.body, fr)
            finally:
              fr.current_exc = saved
            break
        else:
          raise
      else:
        self.exec_block(node.orelse, fr)
    finally:
      # `finally` bodies run on every exit, including the interpreter's own control signals.
      if node.finalbody:
        import sys
        if not isinstance(sys.exc_info()[1], (PathEnd, Unsupported)):
          self.exec_block(node.finalbody, fr)

  def st_With(self, node, fr): self.unsupported("with statement", node)

  def st_FunctionDef(self, node, fr):
    fr.store(node.name, FuncVal(node, fr.func.module if fr.func else None, fr, node.name))

  def st_Delete(self, node, fr):
    for t in node.targets:
      if isinstance(t, ast.Subscript):
        base = self.ev(t.value, fr); idx = self.ev(t.slice, fr)
        if isinstance(base, SMap):
          if not self.ctx.decide(base.has(idx)): self.raise_(KeyError, idx, node=t)
          self.assign_to(t.value, base.remove(idx), fr, mutation=True)
        elif isinstance(base, (dict, list)) and not is_symbolic(idx):
          try: del base[idx]
          except (KeyError, IndexError) as e: self.raise_(type(e), *e.args, node=t)
        else: self.unsupported("del on %r" % (base,), t)
      else:
        self.unsupported("del target", t)

  # -- loops ---------------------------------------------------------------------------------
  def st_For(self, node, fr):
    it = self.ev(node.iter, fr)
    self.last_enumeration = None
    it = self.models.as_iterable(self, it, node)
    if self.last_enumeration is not None:
      # iteration over a set: the (unspecified) order is a ghost sequence the invariants can name
      fr.store("__iterated__", self.last_enumeration)
      fr.store("__position__", self.last_positions)      # member -> its index in __iterated__
      fr.store("__iterset__", self.last_iterset)         # the set being iterated (entry value)
    if isinstance(it, list):        # concrete length: unroll (complete, not a bound)
      broke = False
      for x in it:
        self.assign_to(node.target, x, fr)
        try:
          self.exec_block(node.body, fr)
        except _Break:
          broke = True; break
        except _Continue:
          continue
      if not broke: self.exec_block(node.orelse, fr)
      return
    self.sym_loop(node, fr, it)

  def st_While(self, node, fr):
    spec = self.loop_spec(node, fr)
    if spec is None:
      # no invariant: unroll while the guard is concrete
      n = 0
      while True:
        c = self.truth(self.ev(node.test, fr))
        if not isinstance(c, bool):
          self.unsupported("while loop with symbolic guard needs an invariant", node)
        if not c: break
        n += 1
        if n > 10000: self.unsupported("while loop unrolled too far", node)
        try: self.exec_block(node.body, fr)
        except _Break: return
        except _Continue: continue
      self.exec_block(node.orelse, fr)
      return
    self.sym_loop(node, fr, None)

  def _reachable_objs(self, values):
    seen, out, stack = set(), set(), list(values)
    while stack:
      v = stack.pop()
      if id(v) in seen: continue
      seen.add(id(v))
      if isinstance(v, ObjVal):
        out.add(id(v)); stack.extend(v.fields.values())
      elif isinstance(v, (list, tuple)): stack.extend(v)
      elif isinstance(v, dict): stack.extend(v.values())
      elif isinstance(v, SOpt): stack.append(v.val)
    return out

  def check_loop_frame(self, what, obj=None, frame=None, name=None):
    """Soundness guard for loops with invariants: the arbitrary iteration may only change state the
    loop havocked (names assigned in the body, declared locals).  A change reaching anything else
    - a modelled object mutated inside a callee, a caller's container changed through an alias -
    would silently survive the havoc, so it is refused instead."""
    for g in getattr(self, "_loop_guards", ()):
      if obj is not None and id(obj) in g["pre"] and id(obj) not in g["hav"]:
        self.unsupported("loop %s: the body mutates %s, which the loop does not havoc (declare the "
                         "object in LoopSpec.locals)" % (g["name"], what))
      if frame is not None and frame is g["frame"] and name not in g["names"] and name in g["pre_names"]:
        self.unsupported("loop %s: the body mutates `%s` through an alias, which the loop does not "
                         "havoc (declare it in LoopSpec.locals)" % (g["name"], name))

  def loop_spec(self, node, fr):
    if self.contract is None or fr.func is None: return None
    return self.contract.loop_spec(fr.func, node)

  def sym_loop(self, node, fr, it):
    """Loop with an inductive invariant.  `it` is a SymIter (for) or None (while)."""
    spec = self.loop_spec(node, fr)
    if spec is None:
      self.unsupported("loop over a symbolic iterable needs an invariant", node)
    ctx = self.ctx
    lname = spec.name
    idx_name = spec.index
    ghost_vars = list(spec.ghost_init.keys())
    # ghost initialisation
    for g, (shape, init) in spec.ghost_init.items():
      fr.store(g, self.ghost_init_value(shape, init, fr))
    if it is not None and idx_name: fr.store(idx_name, 0)
    # locals with a declared shape: concrete containers become values of that shape (exactly)
    for name, sh in spec.locals.items():
      if name in fr.env and isinstance(fr.env[name], (list, dict, set)) and \
          not isinstance(fr.env[name], Sym):
        try:
          fr.env[name] = sh.build(sh.leaves(fr.env[name]))
        except Unsupported:
          pass
    # 1. invariant holds on entry
    for iname, clause in spec.invariants.items():
      g = self.eval_spec(clause, fr.flat_env(), old_env=self.old_env)
      ctx.oblige("%s.%s" % (lname, iname), self._bt(g), "inv-init", node.lineno)
    # 2. fork: arbitrary iteration, or exit
    choice = ctx.fork(2)
    pre_objs = self._reachable_objs(fr.flat_env().values())
    pre_names = set(fr.env)
    # ghost variables the ghost code never assigns are loop constants (a snapshot taken at loop
    # entry): they keep their entry value instead of being havocked
    ghost_assigned = set()
    for src in (spec.ghost_step, spec.ghost_pre):
      if src: ghost_assigned |= _assigned_names(ast.parse(_dedent(src)).body)
    modified = _assigned_names(node.body) | (set(ghost_vars) & ghost_assigned) | set(spec.locals)
    if isinstance(node, ast.For): modified |= _target_names(node.target)
    if it is not None and idx_name: modified.discard(idx_name)
    for name in sorted(modified):
      if name not in fr.env: continue
      cur = fr.env[name]
      sh = spec.locals.get(name) or shape_of(cur)
      if sh is None:
        self.unsupported("cannot havoc loop-modified local %r (declare its shape)" % name, node)
      fr.env[name] = ctx.fresh(sh, "%s_%s" % (lname.replace(".", "_"), name))
    if it is not None:
      k = ctx.const("%s_i" % lname.replace(".", "_"), z3.IntSort())
      ctx.assume(k >= 0)
      if isinstance(node, ast.For) and (_names_in(node.iter) & modified):
        # the loop mutates what it iterates over: Python's list iterator reads the *current*
        # list at position k, so the iterable is re-read from the havocked state (the
        # invariant has to say what the not-yet-visited part looks like).
        if idx_name: fr.store(idx_name, SInt(k))
        it = self.models.as_iterable(self, self.ev(node.iter, fr), node)
        if isinstance(it, list): self.unsupported("mutated iterable became concrete", node)
      ctx.assume(k <= it.length)
      if idx_name: fr.store(idx_name, SInt(k))
    def assume_invs():
      for iname, clause in spec.invariants.items():
        ctx.assume(self._bt(self.eval_spec(clause, fr.flat_env(), old_env=self.old_env)))
    if choice == 0:      # ---- one arbitrary iteration
      if it is not None:
        ctx.assume(k < it.length)
        assume_invs()
        self.assign_to(node.target, it.at(self, SInt(k)), fr)
      else:
        assume_invs()
        if not self.force(self.ev(node.test, fr), True): raise PathEnd()
      ctx.covers.append(("%s.iteration" % lname, list(ctx.assumptions)))
      variant0 = None
      if spec.decreases:
        variant0 = self.eval_term(spec.decreases, fr)
        ctx.oblige("%s.decreases_bounded" % lname, variant0 >= 0, "termination", node.lineno)
      if spec.ghost_pre:
        self.exec_ghost(spec.ghost_pre, fr)
      if not hasattr(self, "_loop_guards"): self._loop_guards = []
      self._loop_guards.append({
        "name": lname, "frame": fr, "names": set(modified) | ({idx_name} if idx_name else set()),
        "pre": pre_objs, "pre_names": pre_names,
        "hav": self._reachable_objs([fr.env[n] for n in modified if n in fr.env])})
      try:
        self.exec_block(node.body, fr)
      except _Break:
        return                       # continues after the loop (no else clause)
      except _Continue:
        pass
      finally:
        self._loop_guards.pop()
      if spec.ghost_step:
        self.exec_ghost(spec.ghost_step, fr)
      if it is not None and idx_name: fr.store(idx_name, SInt(k + 1))
      for iname, clause in spec.invariants.items():
        g = self.eval_spec(clause, fr.flat_env(), old_env=self.old_env)
        ctx.oblige("%s.%s" % (lname, iname), self._bt(g), "inv-preserved", node.lineno)
      if variant0 is not None:
        ctx.oblige("%s.decreases_strictly" % lname, self.eval_term(spec.decreases, fr) < variant0,
                   "termination", node.lineno)
      raise PathEnd()
    else:                # ---- exit
      if it is not None:
        ctx.assume(k == it.length)
        assume_invs()
      else:
        assume_invs()
        if not self.force(self.ev(node.test, fr), False): raise PathEnd()
      self.exec_block(node.orelse, fr)

  def eval_term(self, text, fr):
    old = self.spec; self.spec = True
    try:
      f2 = Frame(None, self); f2.env = fr.flat_env(); f2.spec_names = True
      return self.int_term(self.ev(ast.parse(text.strip(), mode="eval").body, f2))
    finally:
      self.spec = old

  def force(self, v, want):
    """Assume truth(v) == want; returns False when that is impossible."""
    t = self.truth(v)
    if isinstance(t, bool): return t == want
    self.ctx.assume(t if want else z3.Not(t))
    return True

  def ghost_init_value(self, shape, init, fr):
    if init is None:
      return self.ctx.fresh(shape, "ghost")
    if isinstance(init, dict):        # a total ghost map with some entries fixed
      m = self.ctx.fresh(shape, "ghost")
      for k, v in init.items(): m = m.store(k, v)
      return m
    if isinstance(init, str):
      old = self.spec; self.spec = True
      try:
        f2 = Frame(None, self); f2.env = fr.flat_env(); f2.spec_names = True
        if self.contract is not None:      # the contract's spec macros are available to ghost inits
          for k, v in self.contract.spec_env(self, f2).items():
            f2.env.setdefault(k, v)
        return self.ev(ast.parse(init, mode="eval").body, f2)
      finally:
        self.spec = old
    return init

  def exec_ghost(self, src, fr):
    """Ghost update code: ordinary statements of the subset, run on the frame's variables."""
    tree = ast.parse(_dedent(src))
    self.in_ghost = True        # ghost maps are total: reads never raise KeyError
    try:
      self.exec_block(tree.body, fr)
    finally:
      self.in_ghost = False


class ExcVal(object):
  def __init__(self, cls, args): self.cls, self.args = cls, args
  def __repr__(self): return "ExcVal(%s)" % self.cls.__name__


class StarArgs(object):
  def __init__(self, v): self.v = v


# every real function whose source was interpreted (inlined) since the last reset: the text a proof
# depends on besides its target function (hashed into the evidence / the proved baseline)
INTERPRETED = {}


class MethodRef(object):
  def __init__(self, base, name): self.base, self.name = base, name


class SuperRef(object):
  """super(Cls, obj) for a modelled instance: attribute lookup continues after Cls in the MRO of
  the REAL class of obj."""
  def __init__(self, obj, after): self.obj, self.after = obj, after


_SPEC_FORMS = ("forall", "exists", "implies", "old", "ite")


class Frame(object):
  def __init__(self, func, interp, parent=None):
    self.func, self.parent = func, parent
    self.env = {}
    self.aliases = {}        # local name -> what else denotes the same mutable object
    self.yielded = None
    self.current_exc = None
    self.spec_names = False
    if func is not None and func.closure is not None and parent is None:
      self.parent = func.closure

  def root(self):
    f = self
    while f.parent is not None: f = f.parent
    return f

  def is_spec_name(self, name):
    f = self
    while f is not None:
      if name in f.env: return False
      if f.spec_names: return True
      f = f.parent
    return False

  def lookup(self, name, interp, node=None):
    f = self
    while f is not None:
      if name in f.env: return f.env[name]
      f = f.parent
    if interp.contract is not None and name in interp.contract.stubs:
      return interp.contract.stubs[name]       # contract-level stub of a global / builtin
    f = self
    while f is not None:
      if f.func is not None and f.func.module is not None:
        g = f.func.module.__dict__
        if name in g: return g[name]
        break
      f = f.parent
    if hasattr(builtins, name): return getattr(builtins, name)
    raise PyExc(NameError, ("name %r is not defined" % name,), getattr(node, "lineno", None))

  def store(self, name, v):
    self.env[name] = v

  def flat_env(self):
    chain, f = [], self
    while f is not None:
      chain.append(f.env); f = f.parent
    out = {}
    for e in reversed(chain): out.update(e)
    return out

  def bind_args(self, a, args, kwargs, interp, node=None):
    params = [p.arg for p in a.posonlyargs + a.args]
    defaults = a.defaults
    kwargs = dict(kwargs)
    args = list(args)
    star = None
    if args and isinstance(args[-1], StarArgs):
      star = args.pop().v
    if any(isinstance(x, StarArgs) for x in args): interp.unsupported("*sym in the middle")
    n = len(params)
    for i, p in enumerate(params):
      if i < len(args): self.env[p] = args[i]
      elif p in kwargs: self.env[p] = kwargs.pop(p)
      else:
        di = i - (n - len(defaults))
        if di >= 0:
          self.env[p] = interp.ev(defaults[di], Frame(self.func, interp, parent=self.parent))
        else:
          raise PyExc(TypeError, ("missing argument %r" % p,), getattr(node, "lineno", None))
    extra = args[n:]
    if a.vararg:
      if star is not None:
        if extra: interp.unsupported("mixed positional and *symbolic varargs")
        self.env[a.vararg.arg] = star
      else:
        self.env[a.vararg.arg] = tuple(extra)
    elif extra or star is not None:
      raise PyExc(TypeError, ("too many positional arguments",), getattr(node, "lineno", None))
    for i, p in enumerate(a.kwonlyargs):
      if p.arg in kwargs: self.env[p.arg] = kwargs.pop(p.arg)
      elif a.kw_defaults[i] is not None:
        self.env[p.arg] = interp.ev(a.kw_defaults[i], Frame(self.func, interp, parent=self.parent))
      else:
        raise PyExc(TypeError, ("missing keyword argument %r" % p.arg,), None)
    if a.kwarg: self.env[a.kwarg.arg] = kwargs
    elif kwargs:
      raise PyExc(TypeError, ("unexpected keyword arguments %r" % sorted(kwargs),), None)


import operator
_NATIVE_BINOPS = {
  ast.Add: operator.add, ast.Sub: operator.sub, ast.Mult: operator.mul,
  ast.Div: operator.truediv, ast.FloorDiv: operator.floordiv, ast.Mod: operator.mod,
  ast.Pow: operator.pow, ast.BitOr: operator.or_, ast.BitAnd: operator.and_,
  ast.BitXor: operator.xor, ast.LShift: operator.lshift, ast.RShift: operator.rshift,
}


def _load(t):
  import copy
  t2 = copy.copy(t)
  t2.ctx = ast.Load()
  return t2


def _dedent(s):
  import textwrap
  return textwrap.dedent(s).strip() + "\n"


def _is_generator(fn):
  if isinstance(fn, ast.Lambda): return False
  for n in _walk_same_scope(fn.body):
    if isinstance(n, (ast.Yield, ast.YieldFrom)): return True
  return False


def _walk_same_scope(stmts):
  stack = list(stmts)
  while stack:
    n = stack.pop()
    yield n
    for c in ast.iter_child_nodes(n):
      if isinstance(c, (ast.FunctionDef, ast.Lambda, ast.ClassDef, ast.AsyncFunctionDef)): continue
      stack.append(c)


def _names_in(e):
  return {n.id for n in ast.walk(e) if isinstance(n, ast.Name)}


def _target_names(t):
  return {n.id for n in ast.walk(t) if isinstance(n, ast.Name)}


_MUTATORS = {"append", "extend", "add", "update", "pop", "remove", "discard", "insert", "clear",
             "setdefault", "sort", "reverse", "popitem"}

def _assigned_names(stmts):
  """Names a loop body may rebind or mutate (syntactic over-approximation)."""
  out = set()
  def base_name(e):
    while isinstance(e, (ast.Attribute, ast.Subscript)): e = e.value
    return e.id if isinstance(e, ast.Name) else None
  for n in _walk_same_scope(stmts):
    if isinstance(n, (ast.Assign, ast.AugAssign, ast.AnnAssign, ast.For)):
      ts = n.targets if isinstance(n, ast.Assign) else [n.target]
      for t in ts:
        for m in ast.walk(t):
          if isinstance(m, ast.Name) and isinstance(m.ctx, ast.Store): out.add(m.id)
          elif isinstance(m, (ast.Subscript, ast.Attribute)) and isinstance(m.ctx, ast.Store):
            b = base_name(m)
            if b: out.add(b)
    elif isinstance(n, ast.Call) and isinstance(n.func, ast.Attribute) and \
        n.func.attr in _MUTATORS:
      b = base_name(n.func.value)
      if b: out.add(b)
    elif isinstance(n, ast.ExceptHandler) and n.name:
      out.add(n.name)
    elif isinstance(n, ast.NamedExpr):
      out.add(n.target.id)
    elif isinstance(n, (ast.With,)):
      for item in n.items:
        if item.optional_vars is not None: out |= _target_names(item.optional_vars)
  return out


def _is_log_call(e):
  return (isinstance(e, ast.Call) and isinstance(e.func, ast.Attribute) and
          isinstance(e.func.value, ast.Name) and e.func.value.id in ("log", "logger", "logging")
          and e.func.attr in ("debug", "info", "warn", "warning", "error"))
