"""Assumed contracts of Python builtins and library functions (the trusted base, DESIGN.md 3).

Every model here states what CPython's builtin does, for concrete *and* symbolic operands.  Models
that are more than plain arithmetic record their name in ctx.assumed_contracts so that the
evidence lists them."""
import ast
import bisect
import builtins
import itertools
import z3

from .values import *   # noqa
from . import values as V


# ------------------------------------------------------------------------------------------
# symbolic iterables
# ------------------------------------------------------------------------------------------

class SymIter(object):
  """An iterable of symbolic length: `length` (z3 Int) and at(interp, SInt k)."""
  def __init__(self, length, at, elem_shape=None):
    self.length, self._at, self.elem_shape = length, at, elem_shape
  def at(self, interp, k):
    return self._at(interp, k)


class SeqSet(Sym):
  """set(<symbolic list>): only `in` and len() are available."""
  __slots__ = ("seq",)
  def __init__(self, seq): self.seq = seq


class RepeatNone(object):
  """[None] * n with symbolic n: becomes a sequence once the element shape is known (list.extend)."""
  def __init__(self, n): self.n = n


class SymComp(object):
  """A lazy generator expression over a SymIter: element and condition as functions of the index
  (evaluated in total/spec mode)."""
  def __init__(self, it, elt, cond):
    self.it, self.elt, self.cond = it, elt, cond


def as_iterable(interp, v, node=None):
  """-> python list (concrete length) or SymIter."""
  if isinstance(v, SymIter): return v
  if isinstance(v, V.SOpt) and not interp.spec:
    v = interp.narrow(v)
    if v is None: interp.raise_(TypeError, "'NoneType' object is not iterable", node=node)
  if isinstance(v, SSeq):
    return SymIter(v.length, lambda ip, k, v=v: v.at(ip.int_term(k)), v.elem)
  if isinstance(v, (list, tuple)): return list(v)
  if isinstance(v, (set, frozenset)):
    if any(is_symbolic(x) for x in v): interp.unsupported("iterating a set of symbolic values", node)
    return sorted(v, key=repr)      # iteration order of a set is unspecified; callers must not care
  if isinstance(v, dict): return list(v.keys())
  if isinstance(v, (range, str, bytes)): return list(v)
  if isinstance(v, SymComp): return materialize(interp, v, "list", node)
  if isinstance(v, SSet):
    seq = enumerate_set(interp, v)
    interp.last_enumeration = seq
    return SymIter(seq.length, lambda ip, k, seq=seq: seq.at(ip.int_term(k)), v.key)
  if isinstance(v, SMap): interp.unsupported("iterating a symbolic map", node)
  if isinstance(v, ObjVal):
    m = interp.lookup_method(v, "__iter__")
    if m is not None:
      return as_iterable(interp, interp.call(m, [], {}), node)
  if isinstance(v, Model) and getattr(v, "iterate", None):
    return v.iterate(interp)
  if not is_symbolic(v):
    try:
      return list(v)
    except TypeError as e:
      interp.raise_(TypeError, str(e), node=node)
  interp.unsupported("iteration over %r" % (v,), node)


def enumerate_set(ip, s, increasing=False):
  """Assumed contract of iterating a (finite) set: some sequence that holds every member exactly
  once, in an unspecified order - or in increasing order for sorted(set of ints).  The position of
  each member in that sequence is an array (`ip.last_positions`), so that invariants can say
  "already visited" without a quantifier: x in the set and position[x] < idx."""
  ctx = ip.ctx
  res = ctx.fresh(V.Seq(s.key), "enum")
  n = res.length
  q = ip._qid()
  i, j = z3.Int("en?i%d" % q), z3.Int("en?j%d" % q)
  ks = s.key.sorts()[0]
  x = z3.Const("en?x%d" % q, ks)
  pos = ctx.const("enum_pos", z3.ArraySort(ks, z3.IntSort()))
  (li,) = s.key.leaves(res.at(i)); (lj,) = s.key.leaves(res.at(j))
  ctx.assume(n >= 0)
  ctx.assume(z3.ForAll([i], z3.Implies(z3.And(i >= 0, i < n),
                                       z3.And(z3.Select(s.arr, li), z3.Select(pos, li) == i))))
  if increasing:
    ctx.assume(z3.ForAll([i, j], z3.Implies(z3.And(0 <= i, i < j, j < n), li < lj)))
  (lp,) = s.key.leaves(res.at(z3.Select(pos, x)))
  ctx.assume(z3.ForAll([x], z3.Implies(z3.Select(s.arr, x),
                                       z3.And(z3.Select(pos, x) >= 0, z3.Select(pos, x) < n, lp == x))))
  ip.last_positions = SMap(s.key, V.Int, z3.K(ks, z3.BoolVal(True)), [pos])
  ip.last_iterset = SSet(s.key, s.arr)
  ctx.assumed_contracts.add("iteration over a set / sorted(set): a sequence holding every member "
                            "exactly once (increasing for sorted)")
  return res


def _may_raise(e):
  for n in ast.walk(e):
    if isinstance(n, (ast.Subscript, ast.Call, ast.Attribute, ast.BinOp, ast.Compare)):
      return True
  return False


def comprehension(interp, node, fr, kind):
  from .interp import Frame, PathEnd
  if len(node.generators) != 1 or node.generators[0].is_async:
    if all(not isinstance(as_iterable_try(interp, g, fr), SymIter) for g in node.generators[:1]):
      return _concrete_comp(interp, node, fr, kind, 0, Frame(fr.func, interp, parent=fr), [])
    interp.unsupported("nested generators in comprehension", node)
  gen = node.generators[0]
  it = as_iterable(interp, interp.ev(gen.iter, fr), node)
  if isinstance(it, list):
    out = _concrete_comp(interp, node, fr, kind, 0, Frame(fr.func, interp, parent=fr), [])
    return out
  if kind == "dict":
    elt_node = ast.Tuple(elts=[node.key, node.value], ctx=ast.Load())
  else:
    elt_node = node.elt
  ctx = interp.ctx
  # Phase A: some iteration raises (explored in code mode at an arbitrary index).
  if not interp.spec and (_may_raise(elt_node) or any(_may_raise(c) for c in gen.ifs)):
    if ctx.fork(2) == 0:
      k = ctx.const("comp_k", z3.IntSort())
      ctx.assume(z3.And(k >= 0, k < it.length))
      sub = Frame(fr.func, interp, parent=fr)
      interp.assign_to(gen.target, it.at(interp, SInt(k)), sub)
      ok = True
      for c in gen.ifs:
        if not interp.branch(interp.ev(c, sub)):
          ok = False
          break
      if ok:
        interp.ev(elt_node, sub)
      raise PathEnd()      # no exception at this index: nothing more to learn on this fork
  def elt(ip, k):
    sub = Frame(fr.func, ip, parent=fr)
    old = ip.spec; ip.spec = True
    try:
      ip.assign_to(gen.target, it.at(ip, k), sub)
      return ip.ev(elt_node, sub)
    finally:
      ip.spec = old
  def cond(ip, k):
    if not gen.ifs: return True
    sub = Frame(fr.func, ip, parent=fr)
    old = ip.spec; ip.spec = True
    try:
      ip.assign_to(gen.target, it.at(ip, k), sub)
      ts = [ip.truth(ip.ev(c, sub)) for c in gen.ifs]
    finally:
      ip.spec = old
    if any(t is False for t in ts): return False
    ts = [t for t in ts if t is not True]
    return z3.And(*ts) if ts else True
  comp = SymComp(it, elt, cond)
  if kind == "gen": return comp
  return materialize(interp, comp, kind, node)


def as_iterable_try(interp, g, fr):
  try:
    return as_iterable(interp, interp.ev(g.iter, fr))
  except Exception:
    return None


def _concrete_comp(interp, node, fr, kind, gi, sub, acc):
  """Comprehension whose iterables all have concrete length: unrolled."""
  from .interp import Frame
  out = [] if kind != "dict" else {}
  def rec(gi, sub):
    if gi == len(node.generators):
      if kind == "dict":
        k = interp.ev(node.key, sub)
        if is_symbolic(k): interp.unsupported("dict comprehension with symbolic key", node)
        out[k] = interp.ev(node.value, sub)
      else:
        out.append(interp.ev(node.elt, sub))
      return
    g = node.generators[gi]
    it = as_iterable(interp, interp.ev(g.iter, sub), node)
    if not isinstance(it, list): interp.unsupported("symbolic inner generator", node)
    for x in it:
      s2 = Frame(fr.func, interp, parent=sub)
      interp.assign_to(g.target, x, s2)
      if all(interp.branch(interp.ev(c, s2)) for c in g.ifs):
        rec(gi + 1, s2)
  rec(0, sub)
  if kind == "set":
    if any(is_symbolic(x) for x in out):
      vals = [interp.narrow(x) for x in out]
      shapes = [shape_of(v) for v in vals]
      if shapes[0] is None or len(shapes[0].sorts()) != 1 or \
          any(repr(sx) != repr(shapes[0]) for sx in shapes):
        interp.unsupported("set of symbolic values", node)
      res = V.SetOf(shapes[0]).build(V.SetOf(shapes[0]).leaves(set()))
      for v in vals: res = res.add(v)
      return res
    return set(out)
  if kind == "gen": return out        # a fully evaluated list stands for the generator
  return out


def materialize(interp, comp, kind, node=None):
  """SymComp -> SSeq (list/tuple) with the defining axioms of map/filter."""
  ctx = interp.ctx
  it = comp.it
  n = it.length
  k = z3.Int("mk?%d" % interp._qid())
  sample = comp.elt(interp, SInt(k))
  sh = shape_of(sample)
  if sh is None: interp.unsupported("element shape of comprehension unknown: %r" % (sample,), node)
  skind = "tuple" if kind == "tuple" else "list"
  res = ctx.fresh(V.Seq(sh, skind), "comp")
  c = comp.cond(interp, SInt(k))
  inr = z3.And(k >= 0, k < n)
  if c is True:
    ctx.assume(res.length == n)
    ctx.assume(z3.ForAll([k], z3.Implies(inr, interp._bt(interp.eq(res.at(k), sample)))))
    return res
  c = interp._bt(c)
  # [f(x) for x in s if c(x)]: facts that hold of the order-preserving filtered map.  cnt(k) =
  # number of kept elements before position k, src(j) = position that produced result element j.
  # (The defining recurrence of cnt is deliberately not asserted: it creates matching loops; every
  #  fact below follows from it by induction, so assuming them is sound.)
  cnt = interp.uf("cnt!%d" % interp._qid(), [z3.IntSort()], z3.IntSort())
  src = interp.uf("src!%d" % interp._qid(), [z3.IntSort()], z3.IntSort())
  j = z3.Int("mj?%d" % interp._qid())
  k2 = z3.Int("mk2?%d" % interp._qid())
  ctx.assume(cnt(0) == 0)
  ctx.assume(res.length == cnt(n))
  ctx.assume(z3.ForAll([k], z3.Implies(z3.And(k >= 0, k <= n), z3.And(cnt(k) >= 0, cnt(k) <= k,
                                                                      cnt(k) <= res.length))))
  ctx.assume(z3.ForAll([k, k2], z3.Implies(z3.And(k >= 0, k <= k2, k2 <= n), cnt(k) <= cnt(k2))))
  ctx.assume(z3.ForAll([k], z3.Implies(z3.And(inr, c), z3.And(
      cnt(k) < res.length, src(cnt(k)) == k, cnt(k + 1) == cnt(k) + 1,
      interp._bt(interp.eq(res.at(cnt(k)), sample))))))
  ctx.assume(z3.ForAll([k], z3.Implies(z3.And(inr, z3.Not(c)), cnt(k + 1) == cnt(k))))
  ck = z3.substitute(c, (k, src(j)))
  sample_j = comp.elt(interp, SInt(src(j)))
  ctx.assume(z3.ForAll([j], z3.Implies(z3.And(j >= 0, j < res.length),
                                       z3.And(src(j) >= 0, src(j) < n, ck, cnt(src(j)) == j,
                                              interp._bt(interp.eq(res.at(j), sample_j))))))
  j2 = z3.Int("mj2?%d" % interp._qid())
  ctx.assume(z3.ForAll([j, j2], z3.Implies(z3.And(j >= 0, j < j2, j2 < res.length),
                                           src(j) < src(j2))))
  ctx.assumed_contracts.add("comprehension-with-filter = order-preserving subsequence")
  return res


# ------------------------------------------------------------------------------------------
# sequence helpers
# ------------------------------------------------------------------------------------------

def to_sseq(interp, v, elem=None):
  if isinstance(v, SSeq): return v
  if isinstance(v, (list, tuple)):
    if elem is None:
      if not v: interp.unsupported("element shape of empty sequence unknown")
      elem = shape_of(v[0])
    return V.seq_from_concrete(elem, v, "tuple" if isinstance(v, tuple) else "list")
  interp.unsupported("not a sequence: %r" % (v,))


def seq_concat(interp, a, b):
  if isinstance(a, SSeq): b = to_sseq(interp, b, a.elem)
  else: a = to_sseq(interp, a, b.elem)
  ctx = interp.ctx
  res = ctx.fresh(V.Seq(a.elem, a.kind), "cat")
  i = z3.Int("cat?%d" % interp._qid())
  ctx.assume(res.length == a.length + b.length)
  ctx.assume(z3.ForAll([i], z3.Implies(z3.And(i >= 0, i < a.length),
                                       interp._bt(interp.eq(res.at(i), a.at(i))))))
  ctx.assume(z3.ForAll([i], z3.Implies(z3.And(i >= a.length, i < res.length),
                                       interp._bt(interp.eq(res.at(i), b.at(i - a.length))))))
  return res


def slice_(interp, base, lo, hi, node=None):
  if not is_symbolic(base) and not is_symbolic(lo) and not is_symbolic(hi):
    try:
      return base[lo:hi]
    except Exception as e:
      interp.raise_(type(e), *e.args, node=node)
  if isinstance(base, (list, tuple)) and base and not isinstance(base, SSeq):
    base = to_sseq(interp, base)
  if isinstance(base, SSeq):
    if lo is None and hi is None:
      return SSeq(base.elem, base.arrs, base.length, base.kind)      # a copy (values immutable)
    n = base.length
    def norm(x, default):
      if x is None: return default
      t = interp.int_term(x)
      t = z3.If(t < 0, t + n, t)
      return z3.If(t < 0, 0, z3.If(t > n, n, t))
    a, b = norm(lo, z3.IntVal(0)), norm(hi, n)
    ctx = interp.ctx
    res = ctx.fresh(V.Seq(base.elem, base.kind), "slice")
    i = z3.Int("sl?%d" % interp._qid())
    ctx.assume(res.length == z3.If(b > a, b - a, 0))
    ctx.assume(z3.ForAll([i], z3.Implies(z3.And(i >= 0, i < res.length),
                                         interp._bt(interp.eq(res.at(i), base.at(a + i))))))
    return res
  interp.unsupported("slice of %r" % (base,), node)


# ------------------------------------------------------------------------------------------
# builtin functions
# ------------------------------------------------------------------------------------------

def m_len(ip, x):
  if isinstance(x, SSeq): return SInt(x.length)
  if isinstance(x, SStr): return SInt(z3.Length(x.t))
  if isinstance(x, SymIter): return SInt(x.length)
  if isinstance(x, SeqSet):
    seq = x.seq
    c = ip.ctx.const("card", z3.IntSort())
    i, j = z3.Int("ci?%d" % ip._qid()), z3.Int("cj?%d" % ip._qid())
    old = ip.spec; ip.spec = True
    try:
      same = ip._bt(ip.eq(seq.at(i), seq.at(j)))
    finally:
      ip.spec = old
    distinct = z3.ForAll([i, j], z3.Implies(z3.And(i >= 0, i < j, j < seq.length), z3.Not(same)))
    ip.ctx.assume(z3.And(c >= 0, c <= seq.length, z3.Implies(seq.length > 0, c > 0),
                         (c == seq.length) == distinct))
    return SInt(c)
  if isinstance(x, SSet):
    # len of a (finite) set: an uninterpreted cardinality, related to the cardinalities taken
    # earlier on this path by the two facts that hold of finite sets (assumed contract):
    #   A subset of B  implies  |A| <= |B|        A subset of B and |B| <= |A|  implies  A == B
    c = ip.ctx.const("card", z3.IntSort())
    ip.ctx.assume(c >= 0)
    empty = z3.K(x.arr.sort().domain(), z3.BoolVal(False))
    ip.ctx.assume((c == 0) == (x.arr == empty))
    seen = ip.ctx.__dict__.setdefault("set_cards", [])
    q = ip._qid()
    for (arr2, c2) in seen:
      if arr2.sort() != x.arr.sort(): continue
      e = z3.Const("cd?%d" % q, x.arr.sort().domain())
      sub12 = z3.ForAll([e], z3.Implies(z3.Select(x.arr, e), z3.Select(arr2, e)))
      sub21 = z3.ForAll([e], z3.Implies(z3.Select(arr2, e), z3.Select(x.arr, e)))
      ip.ctx.assume(z3.Implies(sub12, z3.And(c <= c2, z3.Implies(c2 <= c, x.arr == arr2))))
      ip.ctx.assume(z3.Implies(sub21, z3.And(c2 <= c, z3.Implies(c <= c2, x.arr == arr2))))
    seen.append((x.arr, c))
    ip.ctx.assumed_contracts.add("len(set): cardinality of a finite set (monotone under inclusion; "
                                 "equal cardinalities of nested sets mean equal sets)")
    return SInt(c)
  if isinstance(x, ObjVal):
    m = ip.lookup_method(x, "__len__")
    if m is not None: return ip.call(m, [], {})
  if isinstance(x, Sym): ip.unsupported("len of %r" % (x,))
  try:
    return len(x)
  except TypeError as e:
    ip.raise_(TypeError, str(e))


def _minmax(ip, args, key, is_min):
  if len(args) == 1:
    it = as_iterable(ip, args[0])
    if not isinstance(it, list): ip.unsupported("min/max over a symbolic sequence")
    if not it: ip.raise_(ValueError, "min()/max() arg is an empty sequence")
    args = it
  if key is not None: ip.unsupported("min/max with key")
  best = args[0]
  for x in args[1:]:
    if not is_symbolic(best) and not is_symbolic(x):
      try:
        best = min(best, x) if is_min else max(best, x)
      except TypeError as e:
        ip.raise_(TypeError, str(e))
      continue
    c = ip.less(x, best) if is_min else ip.less(best, x)
    best = ip.ite(c, x, best)
  return best

def m_min(ip, *args, key=None): return _minmax(ip, args, key, True)
def m_max(ip, *args, key=None): return _minmax(ip, args, key, False)


def m_abs(ip, x):
  if not is_symbolic(x): return abs(x)
  t = ip.int_term(x)
  return SInt(z3.If(t >= 0, t, -t))


def m_bool(ip, x=False):
  t = ip.truth(x)
  return ip.wrap_bool(t)


def m_int(ip, x=0, *rest):
  if isinstance(x, (SInt,)): return x
  if isinstance(x, SBool): return SInt(ip.int_term(x))
  if is_symbolic(x) or isinstance(x, ObjVal):
    if isinstance(x, ObjVal):
      m = ip.lookup_method(x, "__int__")
      if m is not None: return ip.call(m, [], {})
    ip.unsupported("int() of %r" % (x,))
  try:
    return int(x, *rest)
  except Exception as e:
    ip.raise_(type(e), *e.args)


def m_range(ip, *args):
  if not any(is_symbolic(a) for a in args): return range(*args)
  if len(args) == 1: lo, hi = 0, args[0]
  elif len(args) == 2: lo, hi = args
  else: ip.unsupported("range with symbolic step")
  lo_t, hi_t = ip.int_term(lo), ip.int_term(hi)
  n = z3.If(hi_t > lo_t, hi_t - lo_t, 0)
  return SymIter(n, lambda ip2, k: SInt(lo_t + ip2.int_term(k)), V.Int)


def m_enumerate(ip, x, start=0):
  it = as_iterable(ip, x)
  if isinstance(it, list) and not is_symbolic(start):
    return [(i, v) for i, v in enumerate(it, start)]
  if isinstance(it, list): ip.unsupported("enumerate with symbolic start")
  st = ip.int_term(start)
  return SymIter(it.length, lambda ip2, k: (SInt(z3.simplify(st + ip2.int_term(k))) , it.at(ip2, k)))


def m_zip(ip, *xs):
  its = [as_iterable(ip, x) for x in xs]
  if all(isinstance(i, list) for i in its): return list(zip(*its))
  sym = []
  for i in its:
    if isinstance(i, list):
      if not i:
        return []
      s = to_sseq(ip, i)
      i = SymIter(s.length, lambda ip2, k, s=s: s.at(ip2.int_term(k)))
    sym.append(i)
  n = sym[0].length
  for i in sym[1:]:
    n = z3.If(i.length < n, i.length, n)
  return SymIter(n, lambda ip2, k: tuple(i.at(ip2, k) for i in sym))


def m_reversed(ip, x):
  it = as_iterable(ip, x)
  if isinstance(it, list): return list(reversed(it))
  n = it.length
  return SymIter(n, lambda ip2, k: it.at(ip2, SInt(n - 1 - ip2.int_term(k))))


def m_tuple(ip, x=()):
  if isinstance(x, SymComp): return materialize(ip, x, "tuple")
  if isinstance(x, SSeq): return SSeq(x.elem, x.arrs, x.length, "tuple")
  it = as_iterable(ip, x)
  if isinstance(it, list): return tuple(it)
  return materialize(ip, SymComp(it, lambda ip2, k: it.at(ip2, k), lambda ip2, k: True), "tuple")


def m_list(ip, x=()):
  if isinstance(x, SymComp): return materialize(ip, x, "list")
  if isinstance(x, SSeq): return SSeq(x.elem, x.arrs, x.length, "list")
  it = as_iterable(ip, x)
  if isinstance(it, list): return list(it)
  return materialize(ip, SymComp(it, lambda ip2, k: it.at(ip2, k), lambda ip2, k: True), "list")


def m_any(ip, x): return _anyall(ip, x, True)
def m_all(ip, x): return _anyall(ip, x, False)

def _anyall(ip, x, is_any):
  if isinstance(x, (SymComp, SymIter, SSeq)):
    if not isinstance(x, SymComp):
      it = as_iterable(ip, x)
      x = SymComp(it, lambda ip2, k: it.at(ip2, k), lambda ip2, k: True)
    k = z3.Int("aa?%d" % ip._qid())
    inr = z3.And(k >= 0, k < x.it.length)
    c = ip._bt(x.cond(ip, SInt(k)))
    t = ip._bt(ip.truth(x.elt(ip, SInt(k))))
    if is_any: return ip.wrap_bool(z3.Exists([k], z3.And(inr, c, t)))
    return ip.wrap_bool(z3.ForAll([k], z3.Implies(z3.And(inr, c), t)))
  it = as_iterable(ip, x)
  ts = [ip.truth(v) for v in it]
  if is_any:
    if any(t is True for t in ts): return True
    ts = [t for t in ts if t is not False]
    return ip.wrap_bool(z3.Or(*ts)) if ts else False
  if any(t is False for t in ts): return False
  ts = [t for t in ts if t is not True]
  return ip.wrap_bool(z3.And(*ts)) if ts else True


def m_sum(ip, x, start=0):
  it = as_iterable(ip, x)
  if not isinstance(it, list): ip.unsupported("sum over a symbolic sequence")
  acc = start
  for v in it:
    acc = ip.binop(ast.Add(), acc, v)
  return acc


def m_isinstance(ip, x, t):
  ts = t if isinstance(t, tuple) else (t,)
  ts = tuple(getattr(k, "stands_for", k) for k in ts)     # a stubbed builtin type (e.g. str)
  def one(x, k):
    if isinstance(x, SBool): return issubclass(bool, k)
    if isinstance(x, SInt): return issubclass(int, k)
    if isinstance(x, SStr): return issubclass(str, k)
    if isinstance(x, SSeq): return issubclass(tuple if x.kind == "tuple" else list, k)
    if isinstance(x, SMap): return issubclass(dict, k)
    if isinstance(x, SSet): return issubclass(set, k)
    if isinstance(x, SOpt):
      inner = one(x.val, k)
      none = issubclass(type(None), k)
      if inner is none: return inner
      return z3.If(x.isnone, ip._bt(none), ip._bt(inner))
    if isinstance(x, SOpq):
      f = ip.contract.opq_isinstance.get(x.kind) if ip.contract else None
      if f is None: ip.unsupported("isinstance of opaque %s" % x.kind)
      return f(ip, x, k)
    if isinstance(x, ObjVal):
      if x.real_cls is not None: return issubclass(x.real_cls, k)
      return k is object
    return isinstance(x, k)
  rs = [one(x, k) for k in ts]
  if any(r is True for r in rs): return True
  rs = [r for r in rs if r is not False]
  return ip.wrap_bool(z3.Or(*rs)) if rs else False


def m_sorted(ip, x, key=None, reverse=False):
  if isinstance(x, SSet) and key is None and reverse is False and x.key == V.Int:
    return enumerate_set(ip, x, increasing=True)
  it = as_iterable(ip, x)
  if isinstance(it, list) and not any(is_symbolic(v) for v in it) and key is None:
    try:
      return sorted(it, reverse=reverse)
    except TypeError as e:
      ip.raise_(TypeError, str(e))
  ip.unsupported("sorted() of symbolic values")


def m_set(ip, x=()):
  if isinstance(x, SSet): return SSet(x.key, x.arr)          # set(a set): a copy
  if isinstance(x, SOpq) and ip.contract and ("set", x.kind) in ip.contract.hooks:
    return ip.contract.hooks[("set", x.kind)](ip, x)
  if isinstance(x, SSeq):
    # set(list): only membership and len() are modelled (assumed contract of set/len):
    #   y in set(l) == y in l ;   len(set(l)) == len(l)  iff  l has no two equal elements
    ip.ctx.assumed_contracts.add("set(list): members = list elements; len(set(l)) == len(l) iff no repeats")
    return SeqSet(x)
  it = as_iterable(ip, x)
  if isinstance(it, list):
    if any(is_symbolic(v) for v in it): ip.unsupported("set() of symbolic values")
    try:
      return set(it)
    except TypeError as e:
      ip.raise_(TypeError, str(e))
  ip.unsupported("set() of a symbolic sequence")


def m_dict(ip, *a, **kw):
  if any(is_symbolic(x) for x in a): ip.unsupported("dict() of symbolic")
  return dict(*a, **kw)


def m_getattr(ip, obj, name, *default):
  if is_symbolic(name): ip.unsupported("getattr with symbolic name")
  from .interp import PyExc
  try:
    return ip.getattr(obj, name)
  except PyExc as e:
    if default and e.exc_cls is AttributeError: return default[0]
    raise
  except Unsupported:
    if default and isinstance(obj, (SSeq, list, tuple)):
      # plain lists/tuples have none of the attributes probed with a default in the subset
      return default[0]
    raise


def m_type(ip, x):
  if isinstance(x, V.SOpt):
    if not ip.spec and ip.ctx.decide(x.isnone): return type(None)
    return m_type(ip, x.val)
  if isinstance(x, SInt): return int
  if isinstance(x, SBool): return bool
  if isinstance(x, SStr): return str
  if isinstance(x, SSeq): return tuple if x.kind == "tuple" else list
  if isinstance(x, ObjVal) and x.real_cls is not None: return x.real_cls
  if is_symbolic(x) or isinstance(x, ObjVal): ip.unsupported("type() of %r" % (x,))
  return type(x)


def _bisect(ip, seq, x, lo=0, hi=None, key=None, left=True):
  """Assumed contract of bisect.bisect_left/right on a list that is sorted w.r.t. `<` of the
  (keyed) elements, where `<` is a strict weak order: the result is the partition point.
    left : all e in a[:i] have key(e) <  x, all e in a[i:] have not (key(e) < x)
    right: all e in a[:i] have not (x < key(e)), all e in a[i:] have x < key(e)
  The sortedness precondition is emitted as an obligation at the call site."""
  if not is_symbolic(seq) and not is_symbolic(x) and key is None:
    return (bisect.bisect_left if left else bisect.bisect_right)(seq, x, lo, hi if hi is not None else len(seq))
  if lo != 0 or hi is not None: ip.unsupported("bisect with lo/hi")
  s = to_sseq(ip, seq)
  ctx = ip.ctx
  def K(i):
    e = s.at(i)
    return ip.call(key, [e], {}) if key is not None else e
  i, j = z3.Int("bs?%d" % ip._qid()), z3.Int("bs?%d" % ip._qid())
  # precondition: sorted (non-strictly): for i<j not key(a[j]) < key(a[i])
  old = ip.spec; ip.spec = True
  try:
    pre = z3.ForAll([i, j], z3.Implies(z3.And(i >= 0, i < j, j < s.length),
                                       z3.Not(ip._bt(ip.less(K(j), K(i))))))
    if not old:
      ctx.oblige("%s.pre.bisect_sorted" % (ip.contract.prefix if ip.contract else ""), pre,
                 "call-pre")
    r = ctx.const("bisect", z3.IntSort())
    ctx.assume(z3.And(r >= 0, r <= s.length))
    if left:
      ctx.assume(z3.ForAll([i], z3.Implies(z3.And(i >= 0, i < r), ip._bt(ip.less(K(i), x)))))
      ctx.assume(z3.ForAll([i], z3.Implies(z3.And(i >= r, i < s.length),
                                           z3.Not(ip._bt(ip.less(K(i), x))))))
    else:
      ctx.assume(z3.ForAll([i], z3.Implies(z3.And(i >= 0, i < r),
                                           z3.Not(ip._bt(ip.less(x, K(i)))))))
      ctx.assume(z3.ForAll([i], z3.Implies(z3.And(i >= r, i < s.length),
                                           ip._bt(ip.less(x, K(i))))))
  finally:
    ip.spec = old
  return SInt(r)

def m_bisect_left(ip, seq, x, lo=0, hi=None, key=None):
  return _bisect(ip, seq, x, lo, hi, key, True)
def m_bisect_right(ip, seq, x, lo=0, hi=None, key=None):
  return _bisect(ip, seq, x, lo, hi, key, False)


def m_chain(ip, *xs):
  its = [as_iterable(ip, x) for x in xs]
  if all(isinstance(i, list) for i in its): return [v for i in its for v in i]
  ip.unsupported("itertools.chain over symbolic sequences")


def m_hash_check(ip, x):
  ip.unsupported("hash()")


from .interp import Model

_NATIVE = {}
def _reg(native, name, fn):
  _NATIVE[id(native)] = (native, Model(name, fn))

_reg(len, "len", m_len); _reg(min, "min", m_min); _reg(max, "max", m_max); _reg(abs, "abs", m_abs)
_reg(bool, "bool", m_bool); _reg(int, "int", m_int); _reg(range, "range", m_range)
_reg(enumerate, "enumerate", m_enumerate); _reg(zip, "zip", m_zip)
_reg(reversed, "reversed", m_reversed); _reg(tuple, "tuple", m_tuple); _reg(list, "list", m_list)
_reg(any, "any", m_any); _reg(all, "all", m_all); _reg(sum, "sum", m_sum)
_reg(isinstance, "isinstance", m_isinstance); _reg(sorted, "sorted", m_sorted)
_reg(set, "set", m_set); _reg(dict, "dict", m_dict); _reg(getattr, "getattr", m_getattr)
_reg(type, "type", m_type)
_reg(bisect.bisect_left, "bisect.bisect_left", m_bisect_left)
_reg(bisect.bisect_right, "bisect.bisect_right", m_bisect_right)
_reg(itertools.chain, "itertools.chain", m_chain)


def lookup_native(fn):
  try:
    e = _NATIVE.get(id(fn))
  except Exception:
    return None
  if e is not None and e[0] is fn: return e[1]
  return None


# ------------------------------------------------------------------------------------------
# methods of builtin containers
# ------------------------------------------------------------------------------------------

_SAFE_NATIVE_METHODS = {
  list: {"append", "extend", "pop", "insert", "copy", "reverse", "clear"},
  dict: {"items", "keys", "values", "copy", "clear"},
  tuple: set(), set: set(), str: None,
}

def call_method(ip, base, name, args, kwargs, node=None):
  """-> (new_base or None, result).  new_base is written back to the receiver expression."""
  if isinstance(base, SSeq):
    if name == "append":
      return base.append(_coerce_elem(ip, base, args[0])), None
    if name == "extend":
      other = args[0]
      if isinstance(other, RepeatNone):
        if not isinstance(base.elem, V.Opt): ip.unsupported("[None] * n into a list of %r" % (base.elem,), node)
        rep = ip.ctx.fresh(V.Seq(base.elem), "rep")
        n = ip.int_term(other.n)
        i = z3.Int("rp?%d" % ip._qid())
        ip.ctx.assume(rep.length == z3.If(n > 0, n, 0))
        ip.ctx.assume(z3.ForAll([i], z3.Implies(z3.And(i >= 0, i < rep.length), rep.at(i).isnone)))
        other = rep
      if isinstance(other, (list, tuple)) and len(other) <= 8:
        out = base
        for x in other: out = out.append(x)
        return out, None
      return seq_concat(ip, base, other), None
    if name == "copy": return None, SSeq(base.elem, base.arrs, base.length, base.kind)
    if name == "pop" and not args:
      if not ip.ctx.decide(base.length > 0): ip.raise_(IndexError, "pop from empty list", node=node)
      last = base.at(base.length - 1)
      return SSeq(base.elem, base.arrs, base.length - 1, base.kind), last
    if name == "index" and len(args) == 1:
      # assumed contract of list/tuple.index: position of the first equal element, or ValueError
      present = ip.contains(base, args[0])
      if not ip.spec and not ip.ctx.decide(ip._bt(present)):
        ip.raise_(ValueError, "x not in sequence", node=node)
      r = ip.ctx.const("index", z3.IntSort())
      j = z3.Int("ix?%d" % ip._qid())
      old = ip.spec; ip.spec = True
      try:
        ip.ctx.assume(z3.And(r >= 0, r < base.length, ip._bt(ip.eq(base.at(r), args[0]))))
        ip.ctx.assume(z3.ForAll([j], z3.Implies(z3.And(j >= 0, j < r),
                                                z3.Not(ip._bt(ip.eq(base.at(j), args[0]))))))
      finally:
        ip.spec = old
      ip.ctx.assumed_contracts.add("sequence.index(x) = first position of x, ValueError if absent")
      return None, SInt(r)
    if name == "index" or name == "count":
      ip.unsupported("list.%s on symbolic list" % name, node)
    ip.unsupported("method %s of symbolic list" % name, node)
  if isinstance(base, SMap):
    if args and isinstance(args[0], SOpt) and not isinstance(base.key, V.Opt) and not ip.spec \
        and name != "get":
      k = ip.narrow(args[0])
      if k is None: ip.unsupported("dict.%s(None) on a dict keyed by %r" % (name, base.key), node)
      args = [k] + list(args[1:])
    if args and isinstance(args[0], SOpt) and not isinstance(base.key, V.Opt):
      # a T|None key into a dict keyed by T: None is not a key
      k = args[0]
      if name == "get":
        d = args[1] if len(args) > 1 else kwargs.get("default")
        return None, ip.ite(z3.And(z3.Not(k.isnone), base.has(k.val)), base.at(k.val), d)
      ip.unsupported("dict.%s with an optional key" % name, node)
    if name == "get":
      k = args[0]; d = args[1] if len(args) > 1 else kwargs.get("default")
      h = base.has(k)
      try:
        return None, ip.ite(h, base.at(k), d)
      except Unsupported:
        if ip.spec: raise
        # the default cannot be merged with a stored value (a sentinel object): follow the path
        return None, (base.at(k) if ip.ctx.decide(h) else d)
    if name == "pop":
      k = args[0]
      if len(args) > 1:
        return base.remove(k), ip.ite(base.has(k), base.at(k), args[1])
      if not ip.ctx.decide(base.has(k)): ip.raise_(KeyError, k, node=node)
      return base.remove(k), base.at(k)
    if name == "setdefault":
      k, d = args[0], args[1] if len(args) > 1 else None
      h = base.has(k)
      v = ip.ite(h, base.at(k), d)
      return base.store(k, v), v
    if name == "update":
      return dict_update(ip, base, args[0], node), None
    if name == "copy": return None, SMap(base.key, base.val, base.present, base.arrs)
    if name == "clear" and not args:
      return SMap(base.key, base.val, z3.K(base.present.sort().domain(), z3.BoolVal(False)),
                  base.arrs), None
    ip.unsupported("method %s of symbolic dict" % name, node)
  if isinstance(base, SSet):
    if args and isinstance(args[0], SOpt) and not isinstance(base.key, V.Opt) and not ip.spec:
      k = ip.narrow(args[0])
      if k is None: ip.unsupported("set.%s(None) on a set of %r" % (name, base.key), node)
      args = [k] + list(args[1:])
    if name == "add": return base.add(args[0]), None
    if name == "discard":
      (kl,) = base.key.leaves(args[0])
      return SSet(base.key, z3.Store(base.arr, kl, z3.BoolVal(False))), None
    if name == "remove" and len(args) == 1:
      if not ip.ctx.decide(ip._bt(base.has(args[0]))): ip.raise_(KeyError, args[0], node=node)
      (kl,) = base.key.leaves(args[0])
      return SSet(base.key, z3.Store(base.arr, kl, z3.BoolVal(False))), None
    if name == "clear" and not args:
      return SSet(base.key, z3.K(base.arr.sort().domain(), z3.BoolVal(False))), None
    if name == "copy" and not args: return None, SSet(base.key, base.arr)
    if name == "update" and len(args) == 1:
      other = args[0]
      if isinstance(other, SSet):
        if other.arr.sort() != base.arr.sort(): ip.unsupported("set.update across sorts", node)
        # the union as a fresh array with its pointwise definition (instantiated by E-matching on
        # reads of the result; the array-map combinator is decided far less reliably)
        res = ip.ctx.fresh(V.SetOf(base.key), "union")
        x = z3.Const("un?%d" % ip._qid(), base.arr.sort().domain())
        ip.ctx.assume(z3.ForAll([x], z3.Select(res.arr, x) ==
                                z3.Or(z3.Select(base.arr, x), z3.Select(other.arr, x))))
        return res, None
      if isinstance(other, (list, tuple, set, frozenset)):
        out = base
        for x in (sorted(other, key=repr) if isinstance(other, (set, frozenset)) else other):
          out = out.add(x)
        return out, None
      ip.unsupported("set.update(%r)" % (other,), node)
    ip.unsupported("method %s of symbolic set" % name, node)
  if isinstance(base, SStr):
    if name == "startswith" and len(args) == 1:
      return None, ip.wrap_bool(z3.PrefixOf(V.Str.leaves(args[0])[0], base.t))
    if name == "endswith" and len(args) == 1:
      return None, ip.wrap_bool(z3.SuffixOf(V.Str.leaves(args[0])[0], base.t))
    f = ip.contract.str_methods.get(name) if ip.contract else None
    if f is not None: return None, f(ip, base, *args, **kwargs)
    ip.unsupported("str.%s on symbolic string" % name, node)
  if isinstance(base, SOpq):
    f = ip.contract.opq_methods.get((base.kind, name)) if ip.contract else None
    if f is None and ip.contract: f = ip.contract.hooks.get(("method", base.kind, name))
    if f is not None: return None, f(ip, base, *args, **kwargs)
    ip.unsupported("method %s of opaque %s" % (name, base.kind), node)
  if isinstance(base, Sym):
    ip.unsupported("method %s of %r" % (name, base), node)
  # concrete containers (possibly holding symbolic members)
  symbolic_inside = is_symbolic(base) or any(is_symbolic(a) for a in args) or \
      any(isinstance(a, (SymComp, SymIter)) for a in args)
  if symbolic_inside:
    if isinstance(base, set) and name in ("add", "discard", "remove", "update") and \
        not any(is_symbolic(x) for x in base) and args:
      # a concrete set meets a symbolic element: continue with the characteristic-array model
      sh = V.shape_of(args[0]) if name != "update" else (V.SetOf(args[0].key).key
                                                         if isinstance(args[0], SSet) else None)
      if isinstance(args[0], V.SOpt): sh = args[0].shape
      if sh is not None and len(sh.sorts()) == 1:
        try:
          lifted = V.SetOf(sh).build(V.SetOf(sh).leaves(base))
        except Unsupported:
          lifted = None
        if lifted is not None:
          return call_method(ip, lifted, name, args, kwargs, node)
    if isinstance(base, list) and name in ("append", "insert", "pop", "copy", "reverse", "clear"):
      if name in ("pop", "insert") and any(is_symbolic(a) for a in args[:1]):
        ip.unsupported("list.%s with symbolic index" % name, node)
      return None, getattr(base, name)(*args)
    if isinstance(base, list) and name == "extend":
      it = as_iterable(ip, args[0], node)
      if isinstance(it, list):
        base.extend(it); return None, None
      if not base:
        return materialize(ip, args[0], "list", node) if isinstance(args[0], SymComp) else \
            m_list(ip, args[0]), None
      return seq_concat(ip, base, m_list(ip, args[0])), None
    if isinstance(base, dict) and name in ("items", "keys", "values", "copy"):
      r = getattr(base, name)()
      return None, list(r) if name != "copy" else r
    if isinstance(base, dict) and name in ("get", "pop", "setdefault") and not is_symbolic(args[0]):
      try:
        return None, getattr(base, name)(*args)
      except KeyError as e:
        ip.raise_(KeyError, *e.args, node=node)
    if isinstance(base, dict) and name == "get" and is_symbolic(args[0]):
      d = args[1] if len(args) > 1 else None
      out = d
      for k, v in reversed(list(base.items())):
        e = ip.eq(k, args[0])
        if e is False: continue
        out = ip.ite(e, v, out)
      return None, out
    if isinstance(base, dict) and name == "update" and not base and \
        isinstance(args[0], SymComp) and ip.contract and ip.contract.map_shapes.get("update"):
      sh = ip.contract.map_shapes["update"]
      empty = sh.build(sh.leaves({}))
      return dict_update(ip, empty, args[0], node), None
    if isinstance(base, (tuple, list)) and name == "index" and base:
      return call_method(ip, to_sseq(ip, base), name, args, kwargs, node)
    if isinstance(base, tuple) and name in ("index", "count"):
      ip.unsupported("tuple.%s with symbolic members" % name, node)
    ip.unsupported("method %s of %s with symbolic members" % (name, type(base).__name__), node)
  try:
    m = getattr(base, name)
  except AttributeError as e:
    ip.raise_(AttributeError, str(e), node=node)
  try:
    r = m(*args, **kwargs)
  except Exception as e:
    ip.raise_(type(e), *e.args, node=node)
  if isinstance(base, dict) and name in ("items", "keys", "values"): r = list(r)
  return None, r


def _coerce_elem(ip, seq, v):
  return v


def dict_update(ip, m, other, node=None):
  """Assumed contract of dict.update(iterable of (key, value) pairs): sequential insertion, so
  the last pair with a given key wins and all other keys keep their old entry."""
  ctx = ip.ctx
  if isinstance(other, (dict, list, tuple)):
    items = list(other.items()) if isinstance(other, dict) else list(other)
    for k, v in items: m = m.store(k, v)
    return m
  if isinstance(other, SMap): ip.unsupported("dict.update(symbolic dict)", node)
  if not isinstance(other, SymComp):
    it = as_iterable(ip, other, node)
    other = SymComp(it, lambda ip2, k: it.at(ip2, k), lambda ip2, k: True)
  n = other.it.length
  ks = m.key.sorts()[0]
  last = ip.uf("last!%d" % ip._qid(), [ks], z3.IntSort())
  key = z3.Const("uk?%d" % ip._qid(), ks)
  i = z3.Int("ui?%d" % ip._qid())
  def hit(idx):
    pair = other.elt(ip, SInt(idx))
    c = ip._bt(other.cond(ip, SInt(idx)))
    k0 = pair[0].val if isinstance(pair[0], SOpt) and not isinstance(m.key, V.Opt) else pair[0]
    if k0 is not pair[0]:
      c = z3.And(c, z3.Not(pair[0].isnone))      # a None key cannot be one of these keys
    (kl,) = m.key.leaves(k0)
    return z3.And(c, kl == key)
  lk = last(key)
  ctx.assume(z3.ForAll([key], z3.Or(
    z3.And(lk == -1, z3.ForAll([i], z3.Implies(z3.And(i >= 0, i < n), z3.Not(hit(i))))),
    z3.And(lk >= 0, lk < n, hit(lk),
           z3.ForAll([i], z3.Implies(z3.And(i > lk, i < n), z3.Not(hit(i))))))))
  res = ctx.fresh(V.MapOf(m.key, m.val), "upd")
  kv = m.key.build([key])
  newv = other.elt(ip, SInt(lk))[1]
  ctx.assume(z3.ForAll([key], res.has(kv) == z3.Or(m.has(kv), lk != -1)))
  ctx.assume(z3.ForAll([key], ip._bt(ip.eq(res.at(kv), ip.ite(lk != -1, newv, m.at(kv))))))
  ctx.assumed_contracts.add("dict.update(pairs) = sequential insertion, last pair wins")
  return res
