"""Root-cause signatures for engine-level failures (used to match known findings).

A signature is computed from the *shrunk* witness: which kind of column differs (sorted lookup,
lookup, summary table, reference, trigger, plain formula, data, metadata), which kinds of user
action the last bundle held, and the type + message pattern of an error."""
import re


def column_tags(e, table_id, col_id):
  tags = set()
  if table_id.startswith("_grist_"):
    return {"metadata"}
  if "_summary_" in table_id:
    tags.add("summary-table")
  t = e.schema.get(table_id)
  c = t.columns.get(col_id) if t is not None else None
  if c is None:
    tags.add("gone-column")
    return tags
  f = c.formula or ""
  if re.search(r"order_by|sort_by|PREVIOUS|NEXT|RANK|\.find\.", f): tags.add("sorted-lookup")
  elif re.search(r"lookupRecords|lookupOne|lookupOrAddDerived", f): tags.add("lookup")
  if "$group" in f or "rec.group" in f: tags.add("summary-group")
  if c.type.startswith("Ref"): tags.add("reference")
  if c.isFormula: tags.add("formula")
  elif f: tags.add("trigger")
  else: tags.add("data")
  return tags


def diff_tags(e, diff):
  tags = set()
  for line in diff:
    m = re.match(r"([A-Za-z0-9_]+)\.([^\[ ]+)\[", line)
    if m:
      tags |= column_tags(e, m.group(1), m.group(2))
    else:
      m = re.match(r"([A-Za-z0-9_]+) row ids|table ([A-Za-z0-9_]+)|([A-Za-z0-9_]+)\.(\S+) (only|differs)", line)
      tags.add("structure")
  return sorted(tags)


def action_kinds(bundle):
  out = set()
  for a in bundle:
    k = a[0]
    if k == "ModifyColumn" and isinstance(a[3], dict):
      k += "(" + ",".join(sorted(a[3])) + ")"
    if k in ("UpdateRecord", "BulkUpdateRecord", "AddRecord", "BulkAddRecord", "RemoveRecord",
             "BulkRemoveRecord") and str(a[1]).startswith("_grist_"):
      k += "@" + a[1]
    out.add(k)
  return sorted(out)


def error_tag(msg):
  msg = str(msg)
  m = re.search(r"([A-Za-z]+Error|AssertionError|KeyError|Exception)\(", msg)
  name = m.group(1) if m else "Error"
  pat = re.sub(r"#?\d+", "N", msg)
  pat = re.sub(r"'[^']*'", "'_'", pat)
  return "%s:%s" % (name, pat[:90])


def _summary_list_groupby(e, table_id):
  """Does this summary table group by a list-valued (ChoiceList/RefList) source column?"""
  try:
    t = e.schema.get(table_id)
    src = None
    for rec in e.docmodel.tables.all:
      if rec.tableId == table_id and rec.summarySourceTable:
        for c in rec.columns:
          if c.summarySourceCol and c.summarySourceCol.type.split(":")[0] in ("ChoiceList", "RefList"):
            return True
  except Exception:
    pass
  return False


def diff_signature(e, diff):
  """One coarse but root-cause oriented word for what differs."""
  text = " ".join(diff)
  if "'NoneType'" in text and "'E'" in text:
    return "error-cell-reads-as-NoneType"
  tags = set(diff_tags(e, diff))
  if "sorted-lookup" in tags: return "stale-sorted-lookup"
  if "summary-table" in tags:
    tables = {re.match(r"([A-Za-z0-9_]+)", l).group(1) for l in diff if re.match(r"[A-Za-z0-9_]+", l)}
    if any("_summary_" in t and _summary_list_groupby(e, t) for t in tables):
      return "summary-by-list-column"
    return "summary-table"
  if "structure" in tags:
    names = set()
    for l in diff:
      m = re.match(r"table ([A-Za-z0-9_]+)|([A-Za-z0-9_]+) row ids|([A-Za-z0-9_]+)\.", l)
      if m: names.add(next(g for g in m.groups() if g))
    if names and all("_summary_" in n or n.startswith("_grist_") for n in names) and \
        any("_summary_" in n for n in names):
      return "summary-table-rebuilt"
    if names and all(n.startswith("_grist_") for n in names): return "metadata-rows-differ"
    return "user-tables-or-rows-differ"
  if "lookup" in tags: return "stale-lookup"
  if "metadata" in tags: return "metadata-cells-differ"
  if "trigger" in tags and "data" not in tags: return "trigger-column-recalculated"
  if "data" in tags: return "stored-cells-differ"
  if tags & {"formula"}: return "formula-results-differ"
  return "+".join(sorted(tags)) or "unknown"
