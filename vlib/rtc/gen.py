"""Seed documents and the action generator of the bounded tier (DESIGN.md 2.3 "Bounds").

A *history* is a list of bundles; a bundle is a list of user-action reprs.  Actions are generated
from the current document state (read from the engine) so that most of them are meaningful; a
share of them is deliberately invalid (unknown ids, bad values) to exercise rejection paths."""
import random

from . import eng

INF = float("inf")

VALUE_POOL = {
  "Int": [0, 1, 2, 3, -1, 7, 10, None, "x", 2.5, True],
  "Numeric": [0.0, 1.5, 2, -3.25, 1e10, None, "abc", True],
  "Text": ["", "a", "b", "c", "Hello", "1", None, 5],
  "Bool": [True, False, None, 0, 1, "x"],
  "Any": [None, 1, "a", 2.5, True],
  "Choice": ["a", "b", "c", "", None],
  "ChoiceList": [None, ["L"], ["L", "a"], ["L", "a", "b"], ["L", "b", "c"], ["L", "c"], "a"],
  "Date": [None, 0, 86400, 86400 * 365, "2020-01-01", 1.5e9],
  "DateTime": [None, 0, 1.6e9, "x"],
}


def values_for(col_type, rng, e=None, n_rows_of=None):
  base = col_type.split(":")[0]
  if base == "Ref":
    rows = n_rows_of(col_type.split(":")[1]) if n_rows_of else []
    return rows + [0, 0, None] + ([max(rows) + 5] if rows and rng.random() < 0.15 else [])
  if base == "RefList":
    rows = n_rows_of(col_type.split(":")[1]) if n_rows_of else []
    out = [None, ["L"]]
    for _ in range(4):
      k = rng.randint(0, min(3, len(rows)))
      out.append(["L"] + rng.sample(rows, k))
    if rows and rng.random() < 0.3:
      out.append(["L", rows[0], rows[0]])
    return out
  return VALUE_POOL.get(base, VALUE_POOL["Any"])


# ------------------------------------------------------------------------------------------
# seed documents: name -> list of bundles
# ------------------------------------------------------------------------------------------

def _col(id_, type_, formula="", isFormula=None, **kw):
  d = {"id": id_, "type": type_, "formula": formula,
       "isFormula": bool(formula) if isFormula is None else isFormula}
  d.update(kw)
  return d


SEEDS = {
  "basic": [
    [["AddTable", "A", [_col("n", "Int"), _col("s", "Text"), _col("f", "Any", "$n * 2 if $n else 0"),
                        _col("g", "Text", "$s.upper() if $s else ''")]]],
    [["BulkAddRecord", "A", [None, None, None], {"n": [1, 2, 2], "s": ["a", "b", "c"]}]],
  ],
  "refs": [
    [["AddTable", "A", [_col("n", "Int"), _col("s", "Text")]],
     ["AddTable", "B", [_col("r", "Ref:A"), _col("rl", "RefList:A"),
                        _col("v", "Any", "$r.n"), _col("w", "Any", "len($rl) if $rl else 0"),
                        _col("x", "Any", "sum(r.n or 0 for r in $rl) if $rl else 0"),
                        _col("y", "Any", "$rl.s if $rl else None")]]],
    [["BulkAddRecord", "A", [None, None, None], {"n": [1, 2, 3], "s": ["a", "b", "c"]}],
     ["BulkAddRecord", "B", [None, None], {"r": [1, 2], "rl": [["L", 1, 2], ["L", 3]]}]],
  ],
  "lookup": [
    [["AddTable", "A", [_col("k", "Text"), _col("n", "Int"), _col("tags", "ChoiceList")]],
     ["AddTable", "B", [_col("k", "Text"),
                        _col("cnt", "Any", "len(A.lookupRecords(k=$k))"),
                        _col("tot", "Any", "sum(A.lookupRecords(k=$k).n)"),
                        _col("first", "Any", "A.lookupOne(k=$k, order_by='-n').n"),
                        _col("tagged", "Any", "len(A.lookupRecords(tags=CONTAINS($k)))"),
                        _col("srt", "Any", "[r.id for r in A.lookupRecords(k=$k, order_by=('n', '-id'))]")]]],
    [["BulkAddRecord", "A", [None, None, None, None],
      {"k": ["a", "b", "a", "c"], "n": [1, 2, 3, 4],
       "tags": [["L", "a"], ["L", "a", "b"], None, ["L", "c"]]}],
     ["BulkAddRecord", "B", [None, None, None], {"k": ["a", "b", "z"]}]],
  ],
  "summary": [
    [["AddTable", "A", [_col("cat", "Text"), _col("n", "Int"), _col("tags", "ChoiceList")]]],
    [["BulkAddRecord", "A", [None, None, None, None],
      {"cat": ["x", "y", "x", ""], "n": [1, 2, 3, 4],
       "tags": [["L", "a"], ["L", "a", "b"], None, ["L"]]}]],
    [["CreateViewSection", 1, 0, "record", [2], None]],          # summary by cat
    [["CreateViewSection", 1, 0, "record", [4], None]],          # summary by tags (ChoiceList)
    [["CreateViewSection", 1, 0, "record", [], None]],           # grand total
  ],
  "twoway": [
    [["AddTable", "B", [_col("s", "Text")]],
     ["AddTable", "A", [_col("n", "Int"), _col("r", "Ref:B")]]],
    [["BulkAddRecord", "B", [None, None, None], {"s": ["p", "q", "r"]}],
     ["BulkAddRecord", "A", [None, None, None], {"n": [1, 2, 3], "r": [1, 2, 0]}]],
    [["AddReverseColumn", "A", "r"]],
  ],
  "twoway_list": [
    [["AddTable", "B", [_col("s", "Text")]],
     ["AddTable", "A", [_col("n", "Int"), _col("rl", "RefList:B")]]],
    [["BulkAddRecord", "B", [None, None, None], {"s": ["p", "q", "r"]}],
     ["BulkAddRecord", "A", [None, None], {"n": [1, 2], "rl": [["L", 1, 2], ["L", 2]]}]],
    [["AddReverseColumn", "A", "rl"]],
  ],
  "trigger": [
    [["AddTable", "A", [_col("n", "Int"), _col("m", "Int"),
                        _col("t", "Int", "($t or 0) + 1", isFormula=False, recalcWhen=0,
                             recalcDeps=None),
                        _col("u", "Int", "($u or 0) + 1", isFormula=False, recalcWhen=2),
                        _col("f", "Any", "$n + 1 if $n is not None else None")]]],
    [["BulkAddRecord", "A", [None, None], {"n": [1, 2], "m": [5, 6]}]],
  ],
  # trigger formulas WITH dependencies (column refs: manualSort=1, n=2, m=3, v=4, w=5, tag=6).
  # `value` is the cell's current value inside a trigger formula.
  "trigger_deps": [
    [["AddTable", "A", [_col("n", "Int"), _col("m", "Int"),
                        _col("v", "Int", "(value or 0) + 1", isFormula=False),
                        _col("w", "Text", "'%s/%s' % ($n, $m)", isFormula=False),
                        _col("tag", "Text", "str($m)[:2].upper()", isFormula=False),
                        _col("f", "Any", "($v or 0) * 10")]]],
    [["UpdateRecord", "_grist_Tables_column", 4, {"recalcWhen": 0, "recalcDeps": ["L", 2]}],
     ["UpdateRecord", "_grist_Tables_column", 5, {"recalcWhen": 0, "recalcDeps": ["L", 2, 3]}],
     ["UpdateRecord", "_grist_Tables_column", 6, {"recalcWhen": 0, "recalcDeps": ["L", 3]}]],
    [["BulkAddRecord", "A", [None, None], {"n": [1, 2], "m": [5, 6]}]],
  ],
  "prevnext": [
    [["AddTable", "A", [_col("g", "Text"), _col("d", "Int"),
                        _col("p", "Any", "PREVIOUS(rec, group_by='g', order_by='d').d"),
                        _col("nx", "Any", "NEXT(rec, group_by='g', order_by='-d').id"),
                        _col("rk", "Any", "RANK(rec, group_by='g', order_by='d')"),
                        _col("cum", "Any", "(PREVIOUS(rec, order_by=None).cum or 0) + ($d or 0)")]]],
    [["BulkAddRecord", "A", [None, None, None, None],
      {"g": ["a", "a", "b", "a"], "d": [3, 1, 2, 1]}]],
  ],
  "choices": [
    [["AddTable", "A", [_col("c", "Choice"), _col("cl", "ChoiceList"), _col("s", "Text"),
                        _col("f", "Any", "$c + '!' if $c else ''")]]],
    [["BulkAddRecord", "A", [None, None, None],
      {"c": ["a", "b", ""], "cl": [["L", "a", "b"], None, ["L", "c"]], "s": ["a", "x", "b"]}]],
  ],
}


def seed_history(name):
  import copy
  return copy.deepcopy(SEEDS[name])


# ------------------------------------------------------------------------------------------
# action generator
# ------------------------------------------------------------------------------------------

FORMULAS = [
  "$n", "$n + 1", "$n * 2 if $n else 0", "len($s or '')", "$s", "rec.id", "$id * 10",
  "1/0", "$nosuch", "None", "'x'", "$n > 1", "[1, 2]", "$f", "$g", "$r.n", "$r", "$rl",
  "len(A.lookupRecords(n=$n))", "A.lookupOne(n=$id).s", "B.lookupRecords(r=$id)",
  "len(B.lookupRecords(rl=CONTAINS($id)))", "sum(A.all.n)", "len($group)", "SUM($group.n)",
  "$d", "$cat", "$k", "def", "return 5", "# c\n$n", "x = $n\nx", "$n +", "\"$n\"",
  "max(r.n for r in A.all) if A.all else 0",
]

NEW_TYPES = ["Int", "Numeric", "Text", "Bool", "Any", "Choice", "ChoiceList", "Date",
             "Ref:A", "RefList:A", "Ref:B", "RefList:B"]

NAMES = ["n", "s", "f", "x", "y", "z", "A", "B", "C", "col", "New Col", "class", "id", "1a", "_u",
         "é", "N", "manualSort", "group", ""]

DEFAULT_WEIGHTS = {
  "add": 10, "bulk_add": 6, "update": 12, "bulk_update": 5, "remove": 6, "bulk_remove": 3,
  "add_col": 5, "add_formula_col": 5, "remove_col": 3, "rename_col": 4, "modify_type": 4,
  "modify_formula": 5, "to_formula": 2, "to_data": 2, "add_table": 2, "remove_table": 1,
  "rename_table": 2, "meta_update": 2, "invalid": 3, "replace_data": 1, "multi": 6,
  "add_temp": 3, "upsert": 2, "summary": 1, "reverse": 1, "view": 1, "label": 1,
}


class Gen(object):
  def __init__(self, rng, weights=None, tables_limit=3, cols_limit=7):
    self.rng = rng
    self.w = dict(DEFAULT_WEIGHTS)
    if weights: self.w.update(weights)
    self.tables_limit, self.cols_limit = tables_limit, cols_limit

  # -- document inspection ---------------------------------------------------------------------
  def doc(self, e):
    tabs = {}
    for t in eng.user_tables(e):
      cols = [c for c in eng.schema_columns(e, t)
              if c[0] not in ("id",) and not c[0].startswith("gristHelper_")]
      rows = list(e.tables[t].row_ids)
      tabs[t] = (cols, rows)
    return tabs

  def rows_of(self, e):
    def f(table_id):
      t = e.tables.get(table_id)
      return list(t.row_ids) if t is not None else []
    return f

  def data_tables(self, tabs, summary_ok=False):
    return [t for t in tabs if summary_ok or "_summary_" not in t]

  def row_values(self, e, cols, rng, only=None):
    out = {}
    for (cid, ctype, is_formula, formula) in cols:
      if cid == "manualSort" or (is_formula and rng.random() < 0.9): continue
      if only is not None and cid not in only: continue
      if rng.random() < 0.6:
        out[cid] = rng.choice(values_for(ctype, rng, e, self.rows_of(e)))
    return out

  # -- one action -----------------------------------------------------------------------------
  def action(self, e, kind=None):
    """-> one user action repr (list), or a list of them for kind 'multi'."""
    rng = self.rng
    tabs = self.doc(e)
    if kind is None:
      kinds = list(self.w)
      kind = rng.choices(kinds, [self.w[k] for k in kinds])[0]
    dts = self.data_tables(tabs)
    if not dts and kind not in ("add_table", "invalid"):
      kind = "add_table"
    m = getattr(self, "k_" + kind)
    a = m(e, tabs, dts)
    return a if a is not None else self.k_add(e, tabs, dts) or ["Calculate"]

  def pick_table(self, tabs, dts, need_rows=False, summary_ok=False):
    c = [t for t in (list(tabs) if summary_ok else dts) if not need_rows or tabs[t][1]]
    return self.rng.choice(c) if c else None

  def k_add(self, e, tabs, dts):
    t = self.pick_table(tabs, dts)
    if t is None: return None
    rid = self.rng.choice([None, None, None, -1, max(tabs[t][1] or [0]) + 2,
                           (tabs[t][1] or [1])[0], 0, 10007])      # a sparse explicit id (a seven-digit one made
    # every later operation on the table walk million-slot columns: minutes per history)
    return ["AddRecord", t, rid, self.row_values(e, tabs[t][0], self.rng)]

  def k_bulk_add(self, e, tabs, dts):
    t = self.pick_table(tabs, dts)
    if t is None: return None
    n = self.rng.randint(1, 3)
    ids = [self.rng.choice([None, None, None, -1, -2, 50, 50]) for _ in range(n)]
    cols = {}
    for (cid, ctype, isf, _) in tabs[t][0]:
      if isf or cid == "manualSort" or self.rng.random() < 0.4: continue
      cols[cid] = [self.rng.choice(values_for(ctype, self.rng, e, self.rows_of(e))) for _ in range(n)]
    return ["BulkAddRecord", t, ids, cols]

  def k_add_temp(self, e, tabs, dts):
    """AddRecord with a temporary id followed by actions that use it (returned as a bundle part)."""
    t = self.pick_table(tabs, dts)
    if t is None: return None
    acts = [["AddRecord", t, -1, self.row_values(e, tabs[t][0], self.rng)]]
    # a reference to it from some Ref column, an update and maybe a removal
    for t2 in dts:
      for (cid, ctype, isf, _) in tabs[t2][0]:
        if not isf and ctype in ("Ref:" + t, "RefList:" + t) and self.rng.random() < 0.7:
          v = -1 if ctype.startswith("Ref:") else ["L", -1]
          if self.rng.random() < 0.2: v = -7 if ctype.startswith("Ref:") else ["L", -7]
          acts.append(["AddRecord", t2, None, {cid: v}])
    if self.rng.random() < 0.6:
      acts.append(["UpdateRecord", t, -1, self.row_values(e, tabs[t][0], self.rng)])
    if self.rng.random() < 0.2:
      acts.append(["RemoveRecord", t, -1])
    return ("MULTI", acts)

  def k_update(self, e, tabs, dts):
    t = self.pick_table(tabs, dts, need_rows=True, summary_ok=self.rng.random() < 0.1)
    if t is None: return None
    r = self.rng.choice(tabs[t][1] + ([99] if self.rng.random() < 0.05 else []))
    vals = self.row_values(e, tabs[t][0], self.rng)
    if not vals and tabs[t][0]:
      c = self.rng.choice(tabs[t][0])
      vals = {c[0]: self.rng.choice(values_for(c[1], self.rng, e, self.rows_of(e)))}
    return ["UpdateRecord", t, r, vals]

  def k_bulk_update(self, e, tabs, dts):
    t = self.pick_table(tabs, dts, need_rows=True)
    if t is None: return None
    rows = self.rng.sample(tabs[t][1], self.rng.randint(1, min(3, len(tabs[t][1]))))
    if self.rng.random() < 0.1: rows = rows + rows[:1]
    cols = {}
    for (cid, ctype, isf, _) in tabs[t][0]:
      if isf and self.rng.random() < 0.9: continue
      if cid == "manualSort" and self.rng.random() < 0.8: continue
      if self.rng.random() < 0.5:
        cols[cid] = [self.rng.choice(values_for(ctype, self.rng, e, self.rows_of(e))) for _ in rows]
    return ["BulkUpdateRecord", t, rows, cols]

  def k_remove(self, e, tabs, dts):
    t = self.pick_table(tabs, dts, need_rows=True, summary_ok=self.rng.random() < 0.05)
    if t is None: return None
    return ["RemoveRecord", t, self.rng.choice(tabs[t][1])]

  def k_bulk_remove(self, e, tabs, dts):
    t = self.pick_table(tabs, dts, need_rows=True)
    if t is None: return None
    rows = self.rng.sample(tabs[t][1], self.rng.randint(1, len(tabs[t][1])))
    return ["BulkRemoveRecord", t, rows]

  def k_replace_data(self, e, tabs, dts):
    t = self.pick_table(tabs, dts)
    if t is None: return None
    a = self.k_bulk_add(e, tabs, [t])
    return ["ReplaceTableData"] + a[1:]

  def k_upsert(self, e, tabs, dts):
    t = self.pick_table(tabs, dts)
    if t is None: return None
    data = [c for c in tabs[t][0] if not c[2] and c[0] != "manualSort"]
    if not data: return None
    rc = self.rng.choice(data)
    req = {rc[0]: self.rng.choice(values_for(rc[1], self.rng, e, self.rows_of(e)))}
    vals = self.row_values(e, [c for c in data if c[0] != rc[0]], self.rng)
    opts = {}
    if self.rng.random() < 0.5: opts["on_many"] = self.rng.choice(["first", "all", "none", "bad"])
    if self.rng.random() < 0.3: opts["update"] = self.rng.random() < 0.5
    if self.rng.random() < 0.3: opts["add"] = self.rng.random() < 0.5
    return ["AddOrUpdateRecord", t, req, vals, opts]

  def new_name(self):
    return self.rng.choice(NAMES)

  def k_add_col(self, e, tabs, dts):
    t = self.pick_table(tabs, dts)
    if t is None or len(tabs[t][0]) >= self.cols_limit: return None
    typ = self.rng.choice([x for x in NEW_TYPES if ":" not in x or x.split(":")[1] in tabs])
    return ["AddColumn", t, self.new_name(), {"type": typ, "isFormula": False}]

  def k_add_formula_col(self, e, tabs, dts):
    t = self.pick_table(tabs, dts, summary_ok=self.rng.random() < 0.3)
    if t is None or len(tabs[t][0]) >= self.cols_limit: return None
    info = {"type": self.rng.choice(["Any", "Any", "Int", "Text"]), "isFormula": True,
            "formula": self.rng.choice(FORMULAS)}
    if self.rng.random() < 0.15:
      info["isFormula"] = False
      info["recalcWhen"] = self.rng.choice([0, 1, 2])
    return ["AddColumn", t, self.new_name(), info]

  def pick_col(self, tabs, t, pred=lambda c: True):
    cs = [c for c in tabs[t][0] if c[0] != "manualSort" and pred(c)]
    return self.rng.choice(cs) if cs else None

  def k_remove_col(self, e, tabs, dts):
    t = self.pick_table(tabs, dts, summary_ok=self.rng.random() < 0.2)
    if t is None: return None
    c = self.pick_col(tabs, t)
    return ["RemoveColumn", t, c[0]] if c else None

  def k_rename_col(self, e, tabs, dts):
    t = self.pick_table(tabs, dts, summary_ok=self.rng.random() < 0.2)
    if t is None: return None
    c = self.pick_col(tabs, t)
    return ["RenameColumn", t, c[0], self.new_name()] if c else None

  def k_modify_type(self, e, tabs, dts):
    t = self.pick_table(tabs, dts)
    if t is None: return None
    c = self.pick_col(tabs, t)
    if not c: return None
    typ = self.rng.choice([x for x in NEW_TYPES if ":" not in x or x.split(":")[1] in tabs])
    return ["ModifyColumn", t, c[0], {"type": typ}]

  def k_modify_formula(self, e, tabs, dts):
    t = self.pick_table(tabs, dts, summary_ok=self.rng.random() < 0.2)
    if t is None: return None
    c = self.pick_col(tabs, t, lambda c: c[2] or self.rng.random() < 0.2)
    if not c: return None
    return ["ModifyColumn", t, c[0], {"formula": self.formula_for(c[3])}]

  def formula_for(self, current):
    """A new formula text: usually another formula, sometimes a near-copy of the current one
    (trailing / leading whitespace, a comment) - edits an 'is this a no-op?' shortcut must still
    treat as edits of the stored text."""
    if current and self.rng.random() < 0.25:
      return self.rng.choice([current + " ", current + "\n", current + "  # c", " " + current,
                              current.rstrip() + "\t", current])
    return self.rng.choice(FORMULAS)

  def k_to_formula(self, e, tabs, dts):
    t = self.pick_table(tabs, dts)
    if t is None: return None
    c = self.pick_col(tabs, t, lambda c: not c[2])
    if not c: return None
    return ["ModifyColumn", t, c[0], {"isFormula": True, "formula": self.rng.choice(FORMULAS)}]

  def k_to_data(self, e, tabs, dts):
    t = self.pick_table(tabs, dts)
    if t is None: return None
    c = self.pick_col(tabs, t, lambda c: c[2])
    if not c: return None
    return ["ModifyColumn", t, c[0], {"isFormula": False}]

  def k_add_table(self, e, tabs, dts):
    if len(dts) >= self.tables_limit: return None
    name = self.rng.choice(["A", "B", "C", "Table", "a b", "class", ""])
    cols = [_col("n", "Int"), _col("s", "Text")]
    if self.rng.random() < 0.5: cols.append(_col("f", "Any", self.rng.choice(FORMULAS)))
    if dts and self.rng.random() < 0.5: cols.append(_col("r", "Ref:" + self.rng.choice(dts)))
    return ["AddTable", name, cols]

  def k_remove_table(self, e, tabs, dts):
    t = self.pick_table(tabs, dts, summary_ok=self.rng.random() < 0.3)
    return ["RemoveTable", t] if t else None

  def k_rename_table(self, e, tabs, dts):
    t = self.pick_table(tabs, dts)
    return ["RenameTable", t, self.rng.choice(["A", "B", "C", "Renamed", "x y", "class"])] if t else None

  def k_label(self, e, tabs, dts):
    t = self.pick_table(tabs, dts)
    if t is None: return None
    c = self.pick_col(tabs, t)
    if not c: return None
    ref = eng.col_ref(e, t, c[0])
    if not ref: return None
    vals = {"label": self.new_name()}
    if self.rng.random() < 0.5: vals["untieColIdFromLabel"] = self.rng.random() < 0.5
    return ["UpdateRecord", "_grist_Tables_column", ref, vals]

  def k_meta_update(self, e, tabs, dts):
    t = self.pick_table(tabs, dts)
    if t is None: return None
    c = self.pick_col(tabs, t)
    if not c: return None
    ref = eng.col_ref(e, t, c[0])
    if not ref: return None
    choice = self.rng.random()
    if choice < 0.3:
      return ["UpdateRecord", "_grist_Tables_column", ref, {"colId": self.new_name()}]
    if choice < 0.5:
      return ["UpdateRecord", "_grist_Tables_column", ref, {"formula": self.rng.choice(FORMULAS)}]
    if choice < 0.65:
      return ["UpdateRecord", "_grist_Tables_column", ref,
              {"type": self.rng.choice(["Int", "Text", "Any", "Numeric"])}]
    if choice < 0.8:
      return ["UpdateRecord", "_grist_Tables", eng.table_ref(e, t),
              {"tableId": self.rng.choice(["A", "B", "Zed"])}]
    if choice < 0.9:
      return ["RemoveRecord", "_grist_Tables_column", ref]
    return ["UpdateRecord", "_grist_Tables_column", ref,
            {"recalcWhen": self.rng.choice([0, 1, 2]), "recalcDeps": None}]

  def k_summary(self, e, tabs, dts):
    t = self.pick_table(tabs, dts)
    if t is None: return None
    data = [c for c in tabs[t][0] if c[0] != "manualSort"]
    refs = [eng.col_ref(e, t, c[0]) for c in self.rng.sample(data, min(len(data), self.rng.randint(0, 2)))]
    refs = [r for r in refs if r]
    return ["CreateViewSection", eng.table_ref(e, t), 0, "record", refs, None]

  def k_reverse(self, e, tabs, dts):
    for t in dts:
      for c in tabs[t][0]:
        if c[1].startswith("Ref") and not c[2] and self.rng.random() < 0.5:
          return ["AddReverseColumn", t, c[0]]
    return None

  def k_view(self, e, tabs, dts):
    views = eng.meta_records(e, "_grist_Views")
    secs = eng.meta_records(e, "_grist_Views_section")
    r = self.rng.random()
    if r < 0.3 and views: return ["RemoveView", self.rng.choice(views)["id"]]
    if r < 0.5 and secs: return ["RemoveViewSection", self.rng.choice(secs)["id"]]
    t = self.pick_table(tabs, dts)
    if t is None: return None
    if r < 0.8: return ["CreateViewSection", eng.table_ref(e, t), 0, "record", None, None]
    pages = eng.meta_records(e, "_grist_Pages")
    if pages: return ["RemoveRecord", "_grist_Pages", self.rng.choice(pages)["id"]]
    return None

  def k_invalid(self, e, tabs, dts):
    r = self.rng.random()
    if r < 0.2: return ["UpdateRecord", "NoSuchTable", 1, {"x": 1}]
    if r < 0.4 and dts: return ["UpdateRecord", dts[0], 1, {"no_such_col": 1}]
    if r < 0.6 and dts: return ["RemoveRecord", dts[0], 12345]
    if r < 0.8 and dts: return ["AddColumn", dts[0], "z", {"type": "Ref:Nope"}]
    return ["NoSuchAction", 1]

  def k_multi(self, e, tabs, dts):
    n = self.rng.randint(2, 4)
    acts = []
    for _ in range(n):
      a = self.action(e, self.rng.choice(["add", "update", "remove", "rename_col", "modify_formula",
                                          "add_col", "bulk_update", "add_formula_col", "invalid",
                                          "remove_col", "modify_type", "rename_table"]))
      if isinstance(a, tuple): acts.extend(a[1])
      else: acts.append(a)
    return ("MULTI", acts)

  # -- bundles / histories -----------------------------------------------------------------------
  def bundle(self, e):
    a = self.action(e)
    if isinstance(a, tuple): return a[1]
    return [a]


def random_history_step(e, gen):
  return gen.bundle(e)
