"""Function-level run-time contracts (bounded tier) on REAL repository functions.

A FnContract wraps one real function (fetched from the imported repository module on every run):

    FnContract(name="relabeling.prepare_inserts",
               call=lambda a: relabeling.prepare_inserts(a["existing"], a["keys"]),
               requires=lambda a: ...,                      # is_valid() of the inputs
               ensures={"C20.all_finite_distinct": lambda a, r: ... -> True / False / "why"},
               raises={"ValueError": lambda a, exc: ...},   # allowed exceptional outcomes
               classify=lambda a, clause, detail: "class string")

`check(report, contract, cases, ...)` evaluates the contract on every case of a *stated finite
bound* (the iterator `cases(tier, seed)` of argument dicts), in parallel by stride, counts
evaluations and distinct non-trivial cases, writes a replay file for every failing clause and
matches failures against known_findings.json by (clause, class).  Results are labelled bounded."""
import copy
import multiprocessing as mp
import os
import time
import traceback

from .. import common


class CaseTimeout(BaseException):
  """A single case ran past its time budget (raised from a SIGALRM handler in the worker).  NOT an
  Exception subclass: the code under test catches Exception in many places (formula evaluation,
  rollback, auto-removal) and would swallow the time-out and carry on."""


def _alarm(signum, frame):
  raise CaseTimeout("case exceeded its time budget")


def time_limited(seconds, f, *args):
  """Runs f(*args) under a wall-clock budget (workers are single-threaded processes)."""
  import signal
  old = signal.signal(signal.SIGALRM, _alarm)
  # repeating: the engine stores ANY exception raised while a formula runs as that cell's error
  # (bare except), so a single time-out can be swallowed; it is raised again every second until
  # the call returns
  signal.setitimer(signal.ITIMER_REAL, seconds, 1.0)
  try:
    return f(*args)
  finally:
    signal.setitimer(signal.ITIMER_REAL, 0)
    signal.signal(signal.SIGALRM, old)


class FnContract(object):
  def __init__(self, name, call, ensures, requires=None, raises=None, classify=None,
               nontrivial=None, show=None):
    self.name, self.call, self.ensures = name, call, dict(ensures)
    self.requires = requires
    self.raises = dict(raises or {})
    self.classify = classify or (lambda a, clause, detail: clause)
    self.nontrivial = nontrivial or (lambda a, r, exc: True)
    self.show = show or (lambda a: a)


def evaluate(contract, args):
  """-> (status, failures) ; status in 'skipped' | 'ok' ; failures = [(clause, detail)]"""
  old = copy.deepcopy(args)
  if contract.requires is not None and not contract.requires(old):
    return "skipped", [], None, None
  try:
    result, exc = contract.call(args), None
  except Exception as e:      # exceptional postcondition
    result, exc = None, e
  failures = []
  if exc is not None:
    allowed = None
    for k in type(exc).__mro__:
      if k.__name__ in contract.raises:
        allowed = contract.raises[k.__name__]
        break
    if allowed is None:
      failures.append(("raises_only_declared", "raised %r" % (exc,)))
    elif callable(allowed):
      ok = allowed(old, exc)
      if ok is not True:
        failures.append(("raises.%s" % type(exc).__name__, ok or "raise condition false"))
    return "ok", failures, result, exc
  for clause, pred in contract.ensures.items():
    try:
      ok = pred(old, result)
    except Exception as e:
      ok = "clause raised %r" % (e,)
    if ok is not True:
      failures.append((clause, ok if ok else "clause false"))
  return "ok", failures, result, exc


_REG = {}
CASE_BUDGET_S = 60

def _worker(task):
  key, w, W, tier, seed, limit_s = task
  contract, cases = _REG[key]
  out = {"n": 0, "skipped": 0, "nontrivial": set(), "failures": [], "samples": []}
  t0 = time.time()
  try:
    for i, args in enumerate(cases(tier, seed)):
      if i % W != w: continue
      if limit_s and time.time() - t0 > limit_s:
        out["truncated"] = True
        break
      shown = repr(contract.show(args))
      try:
        status, failures, result, exc = time_limited(CASE_BUDGET_S, evaluate, contract, args)
      except CaseTimeout:
        # a time budget says "slow", not "never": confirmed with five times the budget before it
        # is reported (a loaded machine is slow without hanging)
        try:
          if out.get("confirmed_hangs", 0) >= 1: raise CaseTimeout()   # one confirmation per worker
          status, failures, result, exc = time_limited(5 * CASE_BUDGET_S, evaluate, contract, args)
          out["slow_cases"] = out.get("slow_cases", 0) + 1
        except CaseTimeout:
          out["confirmed_hangs"] = out.get("confirmed_hangs", 0) + 1
          status, result, exc = "ok", None, None
          failures = [("terminates", "no result after %d s (the real code does not return)" % CASE_BUDGET_S)]
      if status == "skipped":
        out["skipped"] += 1
        continue
      out["n"] += 1
      if contract.nontrivial(args, result, exc): out["nontrivial"].add(hash(shown))
      if len(out["samples"]) < 2:
        out["samples"].append({"args": shown[:400], "result": repr(result)[:300],
                               "raised": repr(exc) if exc else None})
      for clause, detail in failures:
        cls = contract.classify(args, clause, detail)
        k = (clause, cls)
        out.setdefault("class_counts", {})
        out["class_counts"][repr(k)] = out["class_counts"].get(repr(k), 0) + 1
        # at most 3 records per (clause, class) and worker, so that a frequent known class can
        # never crowd out a new one
        if out["class_counts"][repr(k)] <= 3 and len(out["failures"]) < 400:
          out["failures"].append({"clause": clause, "detail": str(detail)[:600], "args": shown[:1500],
                                  "result": repr(result)[:600], "class": cls})
  except Exception:
    out["crash"] = traceback.format_exc(limit=8)
  out["nontrivial"] = len(out["nontrivial"])
  return out


def check(report, contract, cases, procs=None, limit_quick_s=60, limit_thorough_s=600,
          exhaustive=None, warm_engine=False):
  tier = common.tier()
  procs = procs or min(16, os.cpu_count() or 4)
  key = contract.name
  _REG[key] = (contract, cases)
  limit = limit_quick_s if tier == "quick" else limit_thorough_s
  if warm_engine:         # pay the engine's import cost (astroid etc.) once, before forking
    from . import eng
    eng.new_engine()
  tasks = [(key, w, procs, tier, common.seed(), limit) for w in range(procs)]
  with mp.get_context("fork").Pool(procs) as pool:
    outs = pool.map(_worker, tasks)
  cov = report.coverage
  n = nontriv = skipped = 0
  truncated = False
  seen_classes = set()
  for o in outs:
    if o.get("crash"):
      report.crash("bounded contract %s: %s" % (contract.name, o["crash"]))
      continue
    n += o["n"]; nontriv += o["nontrivial"]; skipped += o["skipped"]
    truncated = truncated or o.get("truncated", False)
    cov.setdefault("samples", [])
    if len(cov["samples"]) < 4: cov["samples"].extend(o["samples"][:1])
    for f in o["failures"]:
      k = (f["clause"], f["class"])
      rec = {"obligation": f["clause"], "class": f["class"], "function": contract.name,
             "failing_input": f["args"], "result": f["result"], "detail": f["detail"],
             "tier": "bounded"}
      if k in seen_classes and report.match_known(rec) is None:
        continue        # one replay file per (clause, class)
      seen_classes.add(k)
      report.violation("%s-%s" % (f["clause"], f["class"]), rec, has_input=True)
  cov["evaluations"] = cov.get("evaluations", 0) + n
  cov["distinct_nontrivial"] = cov.get("distinct_nontrivial", 0) + nontriv
  cov.setdefault("contracts", []).append({
    "function": contract.name, "clauses": sorted(contract.ensures), "evaluations": n,
    "precondition_skipped": skipped, "truncated_by_time_limit": truncated})
  if exhaustive is not None:
    cov["exhaustive"] = bool(exhaustive) and not truncated and cov.get("exhaustive", True)
  if n == 0:
    report.crash("contract %s was never exercised (zero evaluations)" % contract.name)
  return n
