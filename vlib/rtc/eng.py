"""Bounded contract tier: driver around the REAL engine (imported from /repo's working tree).

Nothing here re-implements engine behaviour: the functions below only construct engines, apply
user actions (always deep-copied first: the engine mutates its arguments) and observe state through
the engine's own read API (`fetch_table`), which is the observation point the properties name."""
import copy
import json
import logging
import math

from .. import common

common.setup_grist_path()
logging.disable(logging.CRITICAL)

import actions            # noqa: E402  (real module from /repo/sandbox/grist)
import engine as _engine  # noqa: E402
import useractions        # noqa: E402
import objtypes           # noqa: E402
import schema             # noqa: E402


def new_engine():
  e = _engine.Engine()
  e.load_empty()
  apply(e, [["InitNewDoc"]])
  return e


def apply(e, action_reprs, user=None):
  """Applies one bundle given as a list of action reprs; returns the ActionGroup (or raises)."""
  uas = [useractions.from_repr(copy.deepcopy(a)) for a in action_reprs]
  return e.apply_user_actions(uas, user)


def _norm(v):
  """Canonical, hashable, NaN-stable form of an encoded cell value.  Numbers are compared the way
  the engine's own `objtypes.equal_encoding` does - by their JSON representation, so 1 and 1.0
  are the same value while True and 1 are not."""
  if isinstance(v, bool): return ("b", v)
  if isinstance(v, float):
    if math.isnan(v): return ("nan",)
    if math.isinf(v): return ("n", repr(v))
    if v == int(v) and abs(v) < 2 ** 53: return ("n", int(v))
    return ("n", repr(v))
  if isinstance(v, int): return ("n", v)
  if isinstance(v, (list, tuple)): return ("l",) + tuple(_norm(x) for x in v)
  if isinstance(v, dict): return ("d",) + tuple(sorted((str(k), _norm(x)) for k, x in v.items()))
  if isinstance(v, bytes): return ("y", v)
  return v


def table_snapshot(e, table_id, formulas=True, private=False):
  td = e.fetch_table(table_id, formulas=formulas, private=private)
  cols = {}
  for c, vals in td.columns.items():
    cols[c] = tuple(_norm(objtypes.encode_object(v)) for v in vals)
  return (tuple(td.row_ids), cols)


def snapshot(e, formulas=True, private=False, tables=None):
  """{table_id: (row_ids, {col_id: encoded values})} for every table of the document, through the
  engine's own fetch_table + the encoding used in its replies."""
  out = {}
  for t in sorted(e.tables):
    if tables is not None and t not in tables: continue
    out[t] = table_snapshot(e, t, formulas, private)
  return out


def diff_snapshots(a, b, limit=6):
  """Human-readable differences (list of strings); empty when equal."""
  out = []
  for t in sorted(set(a) | set(b)):
    if t not in a: out.append("table %s only in second" % t); continue
    if t not in b: out.append("table %s only in first" % t); continue
    (ra, ca), (rb, cb) = a[t], b[t]
    if ra != rb: out.append("%s row ids %r != %r" % (t, ra, rb))
    for c in sorted(set(ca) | set(cb)):
      if c not in ca: out.append("%s.%s only in second" % (t, c)); continue
      if c not in cb: out.append("%s.%s only in first" % (t, c)); continue
      if ca[c] != cb[c]:
        if ra == rb:
          for r, x, y in zip(ra, ca[c], cb[c]):
            if x != y:
              out.append("%s.%s[%s]: %r != %r" % (t, c, r, x, y))
              if len(out) >= limit: return out
        else:
          out.append("%s.%s differs" % (t, c))
    if len(out) >= limit: break
  return out


def diff_cells(a, b):
  """Set of (table, col, row) cells that differ between two snapshots with the same tables, columns
  and row ids; None when the difference is structural."""
  if set(a) != set(b): return None
  out = set()
  for t in a:
    (ra, ca), (rb, cb) = a[t], b[t]
    if ra != rb or set(ca) != set(cb): return None
    for c in ca:
      if ca[c] != cb[c]:
        out.update((t, c, r) for r, x, y in zip(ra, ca[c], cb[c]) if x != y)
  return out


def scratch(e):
  """From-scratch recalculation of e's own stored data (the specification function of C05): a fresh
  engine loaded with e's metadata and data columns only, then Calculate."""
  f = _engine.Engine()
  rest = f.load_meta_tables(e.fetch_table('_grist_Tables'), e.fetch_table('_grist_Tables_column'))
  for t in rest:
    f.load_table(e.fetch_table(t, formulas=False))
  f.apply_user_actions([useractions.from_repr(['Calculate'])])
  return f


def stale_cells(e):
  """Cells of e that a from-scratch recalculation of e's own data computes differently (None when
  the two engines differ structurally)."""
  return diff_cells(snapshot(e), snapshot(scratch(e)))


def undo_reprs(group):
  return [actions.get_action_repr(a) for a in group.undo]


def stored_reprs(group):
  return [actions.get_action_repr(a) for a in group.stored]


def group_json(group):
  return {"stored": stored_reprs(group), "undo": undo_reprs(group),
          "direct": list(group.direct), "retValues": _jsonable(group.retValues)}


def _jsonable(x):
  try:
    json.dumps(x)
    return x
  except Exception:
    return repr(x)


def replay(history):
  """Fresh engine brought to the state after `history` (list of bundles).  Bundles that raise are
  skipped, exactly as they left no trace the first time."""
  e = new_engine()
  for b in history:
    try:
      apply(e, b)
    except Exception:
      pass
  return e


def user_tables(e):
  return sorted(t for t in e.tables if not t.startswith("_grist_"))


def schema_columns(e, table_id):
  """[(col_id, type, isFormula, formula)] from the engine's schema."""
  t = e.schema.get(table_id)
  if t is None: return []
  return [(c.colId, c.type, c.isFormula, c.formula) for c in t.columns.values()]


def meta_records(e, table_id):
  td = e.fetch_table(table_id)
  out = []
  for i, r in enumerate(td.row_ids):
    rec = {"id": r}
    for c, vals in td.columns.items(): rec[c] = vals[i]
    out.append(rec)
  return out


def col_ref(e, table_id, col_id):
  for r in meta_records(e, "_grist_Tables_column"):
    if r["colId"] == col_id:
      tr = [t for t in meta_records(e, "_grist_Tables") if t["id"] == r["parentId"]]
      if tr and tr[0]["tableId"] == table_id: return r["id"]
  return None


def table_ref(e, table_id):
  for t in meta_records(e, "_grist_Tables"):
    if t["tableId"] == table_id: return t["id"]
  return None
