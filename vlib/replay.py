"""./check <ID> --replay <file>: shows a replay record and re-runs it against the real code where
the record is self-contained (engine histories; deductive counter-models carry their native replay
result and the arguments as text)."""
import importlib, json, os, sys

sys.path.insert(0, os.path.dirname(os.path.dirname(os.path.abspath(__file__))))
from vlib import common


def main():
  pid, path = sys.argv[1], sys.argv[2]
  rec = json.load(open(path))
  print("property      :", rec.get("property", pid))
  print("obligation    :", rec.get("obligation"))
  print("class         :", rec.get("class"))
  if rec.get("verifier_output"):
    print("verifier      :", rec.get("verifier_output"), "by", rec.get("solver"))
    rp = rec.get("replay") or {}
    print("model args    :", rec.get("model_args"))
    print("native replay :", rp.get("replayed"), "-", rp.get("why"))
    print("real result   :", rp.get("result"), " raised:", rp.get("raised"))
    if rec.get("failing_input"): print("failing input :", rec.get("failing_input"))
    return 1 if rp.get("replayed") or rec.get("failing_input") else 2
  if "history" in rec and "seed_doc" in rec:
    from vlib.rtc import explore
    mon = rec.get("monitor")
    if not mon:
      print("history       :", json.dumps(rec["history"]))
      print("(no monitor recorded; replay with vlib.rtc.explore.run_history)")
      return 2
    modname, cls = mon.split(":")
    m = getattr(importlib.import_module(modname), cls)()
    failures, stats, _ = explore.run_history(m, rec["seed_doc"], rec["history"])
    print("seed document :", rec["seed_doc"])
    for b in rec["history"]: print("  bundle      :", json.dumps(b))
    for f in failures:
      print("REPRODUCED    :", f["clause"], "|", f["class"], "|", json.dumps(f["detail"])[:600])
    if not failures: print("not reproduced on this tree")
    return 1 if failures else 0
  print("failing input :", rec.get("failing_input"))
  print("result        :", rec.get("result"))
  print("detail        :", rec.get("detail"))
  return 1


if __name__ == "__main__":
  sys.exit(main())
