#!/usr/bin/env python3
"""Mutation self-test of the deductive contracts on the engine's index structures: each entry of
deductive_mutants.json is a deliberate breaking edit of a function under contract.  It is applied
to a scratch copy of the repository (outside /repo and /verif); the contract module is verified
against the copy (VERIF_REPO) in a subprocess, and some obligation of the expected contract must no
longer be discharged (`sat` with a replayed counter-model, or `unknown`, which the checks report
as a violation because proved_baseline.json has the obligation as proved for other code).  Every
OTHER contract of the module whose code the edit does not touch must still be proved.
usage: selftest/run_deductive.py [id ...]"""
import json, os, shutil, subprocess, sys, tempfile, time
HERE = os.path.dirname(os.path.abspath(__file__)); VERIF = os.path.dirname(HERE)

WORKER = r'''
import sys, json, importlib
sys.path.insert(0, %r)
from vlib import common; common.setup_grist_path()
from vlib import pysym
mod = importlib.import_module(sys.argv[1])
reg = {k.qualname: k for k in mod.CONTRACTS}
out = {}
for c in mod.CONTRACTS:
  if not c.prefix.startswith(sys.argv[2]): continue
  run = pysym.verify_contract(c, reg, 8000)
  out[c.prefix] = {"unsupported": run.unsupported, "code_sha": run.code_sha,
                   "open": [(r.ob.name, r.res.status, bool(r.replay and r.replay.get("replayed")))
                            for r in run.results if r.res.status != "unsat"]}
print("RESULT " + json.dumps(out))
''' % VERIF

def main():
  muts = json.load(open(os.path.join(HERE, "deductive_mutants.json")))
  base = json.load(open(os.path.join(VERIF, "proved_baseline.json")))
  want = sys.argv[1:]
  bad = 0
  for m in muts:
    if want and m["id"] not in want: continue
    scratch = tempfile.mkdtemp(prefix="verif-dmut-")
    try:
      os.makedirs(os.path.join(scratch, "app"))
      shutil.copytree("/repo/sandbox", os.path.join(scratch, "sandbox"),
                      ignore=shutil.ignore_patterns("__pycache__", "pyodide", "gvisor", "docker"))
      shutil.copytree("/repo/app/common", os.path.join(scratch, "app/common"))
      path = os.path.join(scratch, m["file"])
      src = open(path).read()
      if src.count(m["old"]) < 1:
        print("DMUTANT %s: pattern not found in %s" % (m["id"], m["file"])); bad += 1; continue
      open(path, "w").write(src.replace(m["old"], m["new"], 1))
      t0 = time.time()
      p = subprocess.run([os.path.join(VERIF, ".venv/bin/python"), "-c", WORKER, m["module"], m["expect"]],
                         env=dict(os.environ, VERIF_REPO=scratch), capture_output=True, text=True)
      line = [l for l in p.stdout.splitlines() if l.startswith("RESULT ")]
      if not line:
        print("DMUTANT %-44s ERROR %s" % (m["id"], (p.stderr or p.stdout)[-300:])); bad += 1; continue
      res = json.loads(line[0][7:])
      hit = []
      for pref, r in res.items():
        changed = base.get(pref, {}).get("code_sha") != r["code_sha"]
        for name, status, replayed in r["open"]:
          if status == "sat" and replayed: hit.append("%s sat+replayed" % name)
          elif status in ("sat", "unknown") and changed: hit.append("%s %s (code changed)" % (name, status))
        if r["unsupported"] and changed: hit.append("%s unsupported" % pref)
      ok = any("unsupported" not in h for h in hit)
      print("DMUTANT %-44s %s %.0fs  %s" % (m["id"], "caught" if ok else "MISSED", time.time() - t0,
                                            "; ".join(hit[:2])[:160]))
      if not ok: bad += 1
    finally:
      shutil.rmtree(scratch, ignore_errors=True)
  print("deductive mutation self-test: %s" % ("OK" if not bad else "%d missed" % bad))
  return 1 if bad else 0

if __name__ == "__main__":
  sys.exit(main())
