#!/usr/bin/env python3
"""Mutation self-test: each entry of selftest/mutants.json is a deliberate property-breaking edit
(old text -> new text in one repository file).  The edit is applied to a scratch copy of the
repository's sandbox/ and app/common/ trees (outside /repo and /verif), the property's check is
run against the copy (VERIF_REPO), and must exit 1 with a VIOLATION line.  The copy is removed.

usage: selftest/run.py [Cxx ...] [--tier quick|thorough] [--keep]"""
import json, os, shutil, subprocess, sys, tempfile, time

HERE = os.path.dirname(os.path.abspath(__file__))
VERIF = os.path.dirname(HERE)

def main():
  args = [a for a in sys.argv[1:] if not a.startswith("--")]
  tier = "quick"
  if "--tier" in sys.argv: tier = sys.argv[sys.argv.index("--tier") + 1]; args = [a for a in args if a != tier]
  import glob
  muts = json.load(open(os.path.join(HERE, "mutants.json")))
  for f in sorted(glob.glob(os.path.join(HERE, "mutants.d", "*.json"))):
    muts.extend(json.load(open(f)))
  bad = 0
  for m in muts:
    if args and m["property"] not in args and m["id"] not in args: continue
    scratch = tempfile.mkdtemp(prefix="verif-mut-")
    try:
      os.makedirs(os.path.join(scratch, "sandbox"))
      shutil.copytree("/repo/sandbox/grist", os.path.join(scratch, "sandbox/grist"),
                      ignore=shutil.ignore_patterns("__pycache__"))
      for extra in ("sandbox/gen_js_schema.py",):
        shutil.copy("/repo/" + extra, os.path.join(scratch, extra))
      os.makedirs(os.path.join(scratch, "app"))
      shutil.copytree("/repo/app/common", os.path.join(scratch, "app/common"))
      path = os.path.join(scratch, m["file"])
      src = open(path).read()
      if src.count(m["old"]) < 1:
        print("MUTANT %s: pattern not found in %s" % (m["id"], m["file"])); bad += 1; continue
      open(path, "w").write(src.replace(m["old"], m["new"], 1))
      env = dict(os.environ, VERIF_REPO=scratch, VERIF_TIER=tier,
                 VERIF_EVIDENCE_DIR=os.path.join(scratch, "evidence"),
                 VERIF_REPLAY_DIR=os.path.join(scratch, "replays"))
      t0 = time.time()
      p = subprocess.run([os.path.join(VERIF, "check"), m["property"]], env=env,
                         capture_output=True, text=True)
      lines = [l for l in p.stdout.splitlines() if l.startswith(("VIOLATION", "UNDECIDED", "CHECKER"))]
      ok = p.returncode == 1 and any(l.startswith("VIOLATION") for l in lines)
      print("MUTANT %-28s %s exit=%d %.0fs  %s" % (m["id"], "caught" if ok else "MISSED",
            p.returncode, time.time() - t0, (lines[0][:150] if lines else "")))
      if not ok:
        bad += 1
        if "--verbose" in sys.argv: print(p.stdout[-3000:], p.stderr[-3000:])
    finally:
      if "--keep" not in sys.argv: shutil.rmtree(scratch, ignore_errors=True)
  return 1 if bad else 0

if __name__ == "__main__":
  sys.exit(main())
