#!/usr/bin/env python3
"""Self-test of pysym's model of Python's reference semantics (see selftest/pysym_cases.py).
For every case: the contract stating CPython's behaviour must be PROVED, and the contract stating
a plausible wrong behaviour (what a naive value-semantics model would give) must be REFUTED.
Exit 0 when all expectations hold."""
import os, sys
VERIF = os.path.dirname(os.path.dirname(os.path.abspath(__file__)))
sys.path.insert(0, VERIF)
from vlib import common
common.setup_grist_path()
from vlib.pysym import *
from vlib import pysym

F = os.path.join(VERIF, "selftest", "pysym_cases.py")
M = MapOf(Int, SetOf(Int))
frame = "forall(j, j != k, (j in m) == (j in old(m)) and forall(y, True, implies(j in m, (y in m[j]) == (y in old(m)[j]))))"


def C(name, fn, params, right, wrong, requires=None, **kw):
  mk = lambda tag, ens: Contract(prefix="T.%s.%s" % (name, tag), target="selftest.pysym_cases:" + fn,
                                 file=F, params=dict(params), requires=dict(requires or {}), ensures=ens, **kw)
  return mk("right", right), mk("wrong", wrong)


CASES = [
  C("add_via_local", "add_via_local", dict(m=M, k=Int, x=Int),
    {"entry_mutated": "implies(k in old(m), k in m and x in m[k] and forall(y, y != x, (y in m[k]) == (y in old(m)[k])))",
     "absent_stays_absent": "implies(k not in old(m), k not in m)", "frame": frame},
    {"value_semantics": "implies(k in old(m), (x in m[k]) == (x in old(m)[k]))"}),
  C("add_via_param", "add_via_param", dict(m=M, k=Int, x=Int),
    {"entry_mutated": "implies(k in old(m), k in m and x in m[k])", "frame": frame},
    {"value_semantics": "implies(k in old(m), (x in m[k]) == (x in old(m)[k]))"}),
  C("add_after_del", "add_after_del", dict(m=M, k=Int, x=Int), requires={"present": "k in m"},
    right={"entry_gone": "k not in m", "detached_object_mutated": "x in result", "frame": frame},
    wrong={"reinserted": "k in m"}),
  C("rebind_local", "rebind_local", dict(m=M, k=Int, x=Int),
    {"map_untouched": "forall(j, True, (j in m) == (j in old(m)) and forall(y, True, implies(j in m, (y in m[j]) == (y in old(m)[j]))))",
     "fresh_set": "x in result"},
    {"written_back": "implies(k in old(m), x in m[k])"}),
  C("rebind_param", "rebind_param", dict(m=M, k=Int, x=Int), requires={"present": "k in m"},
    right={"map_untouched": "forall(y, True, (y in m[k]) == (y in old(m)[k]))"},
    wrong={"written_back": "x in m[k]"}),
  C("store_then_mutate_old", "store_then_mutate_old", dict(m=M, k=Int, x=Int, other=SetOf(Int)),
    requires={"present": "k in m"},
    right={"entry_is_other": "forall(y, True, (y in m[k]) == (y in other))", "old_object_mutated": "x in result"},
    wrong={"written_back": "x in m[k]"}),
  C("setdefault_chain", "setdefault_chain", dict(m=M, k=Int, x=Int),
    {"added": "k in m and x in m[k]",
     "others_kept": "forall(y, y != x, (y in m[k]) == (k in old(m) and y in old(m)[k]))", "frame": frame},
    {"temporary_mutated": "implies(k not in old(m), x not in m[k])"}),
  C("fresh_empty_list", "fresh_empty_list", dict(n=Int),
    {"empty_range_forall": "len(result) == 0 and forall(i, 0 <= i < 0 - 1, result[i + 1] == result[i] + n)"},
    {"empty_range_exists": "exists(i, 0 <= i < 0 - 1, result[i + 1] == result[i] + n)"}),
  C("discard_and_prune", "discard_and_prune", dict(m=M, k=Int, x=Int),
    {"x_gone": "implies(k in m, x not in m[k])",
     "pruned_iff_empty": "implies(k in old(m), (k in m) == exists(y, y != x, y in old(m)[k]))",
     "no_empty_bin_created": "implies(k in m and k in old(m), exists(y, True, y in m[k]))", "frame": frame},
    {"never_pruned": "implies(k in old(m), k in m)"}),
]


def _holder_cases():
  import selftest.pysym_cases as pc
  H = lambda: Obj("Holder", real_cls=pc.Holder, d=MapOf(Int, Int))
  return [
    C("holder_put", "Holder.put", dict(self=H(), k=Int, v=Int),
      {"stored_in_field": "k in self.d and self.d[k] == v",
       "frame": "forall(j, j != k, (j in self.d) == (j in old(self).d) and implies(j in self.d, self.d[j] == old(self).d[j]))"},
      {"callee_local_only": "(k in self.d) == (k in old(self).d)"},
      requires={"fresh_key": "k not in self.d"}),
    C("holder_two_levels", "Holder.put_twice_removed", dict(self=H(), k=Int, v=Int),
      {"stored": "k in self.d and self.d[k] == v", "neighbour_popped": "(k + 1) not in self.d",
       "frame": "forall(j, j != k and j != k + 1, (j in self.d) == (j in old(self).d))"},
      {"pop_lost": "implies((k + 1) in old(self).d, (k + 1) in self.d)"}),
  ]


def _modular_case():
  """A call checked against the callee's CONTRACT: only what that contract ensures may be used.  The
  callee contract below says nothing about the other keys, so a caller's frame claim must not
  verify (it would if the callee's effect on the object were not havocked)."""
  import selftest.pysym_cases as pc
  H = lambda: Obj("Holder", real_cls=pc.Holder, d=MapOf(Int, Int))
  callee = Contract(prefix="T.modular.callee", target="selftest.pysym_cases:Holder.put", file=F,
                    params=dict(self=H(), k=Int, v=Int), ensures={"stored": "k in self.d and self.d[k] == v"},
                    modular=True)
  right, wrong = C("modular_call", "Holder.put_via_method", dict(self=H(), k=Int, v=Int),
                   {"stored": "k in self.d and self.d[k] == v"},
                   {"frame_not_promised_by_callee": "forall(j, j != k, (j in self.d) == (j in old(self).d))"})
  return right, wrong, {"Holder.put": callee}


_EXTRA_BAD = 0


def main():
  import selftest.pysym_cases  # noqa
  CASES.extend(_holder_cases())
  mr, mw, reg = _modular_case()
  for c, want in ((mr, "proved"), (mw, "refuted")):
    r = pysym.verify_contract(c, reg)
    got = "proved" if (not r.unsupported and r.results and all(x.res.status == "unsat" for x in r.results)) \
        else "refuted" if any(x.res.status == "sat" for x in r.results) else "open"
    print("%-34s %s (want %s)" % (c.prefix, got, want))
    if got != want: CASES.append(None)
  bad_modular = sum(1 for x in CASES if x is None)
  CASES[:] = [x for x in CASES if x is not None]
  global _EXTRA_BAD
  _EXTRA_BAD = bad_modular
  bad = 0
  for right, wrong in CASES:
    r = pysym.verify_contract(right)
    ok = not r.unsupported and r.results and all(x.res.status == "unsat" for x in r.results)
    print("%-34s right: %s" % (right.prefix, "proved" if ok else "NOT PROVED %s %s" % (
        r.unsupported, [(x.ob.name, x.res.status) for x in r.results if x.res.status != "unsat"])))
    if not ok: bad += 1
    w = pysym.verify_contract(wrong)
    refuted = any(x.res.status == "sat" for x in w.results)
    print("%-34s wrong: %s" % (wrong.prefix, "refuted" if refuted else "NOT REFUTED %s %s" % (
        w.unsupported, [(x.ob.name, x.res.status) for x in w.results])))
    if not refuted: bad += 1
  bad += _EXTRA_BAD
  print("pysym semantics self-test: %s" % ("OK" if not bad else "%d expectation(s) failed" % bad))
  return 1 if bad else 0


if __name__ == "__main__":
  sys.exit(main())
