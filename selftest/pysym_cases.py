"""Small functions exercising the reference semantics of mutable containers (aliases through
locals, parameters, dict entries).  selftest/pysym_semantics.py proves, with pysym, contracts that
state what CPython does on them - and checks that deliberately wrong contracts are refuted - so a
wrong alias model in the interpreter shows up as a failed self-test, not as a bogus proof."""
NIL = object()


def add_via_local(m, k, x):
  s = m.get(k, NIL)
  if s is not NIL:
    s.add(x)
  return None


def _helper_add(container, x):
  container.add(x)


def add_via_param(m, k, x):
  s = m.get(k, NIL)
  if s is not NIL:
    _helper_add(s, x)


def add_after_del(m, k, x):
  s = m[k]
  del m[k]
  s.add(x)
  return s


def rebind_local(m, k, x):
  s = m.get(k, NIL)
  s = set()
  s.add(x)
  return s


def _helper_rebind(container, x):
  container = set()
  container.add(x)


def rebind_param(m, k, x):
  s = m[k]
  _helper_rebind(s, x)


def _put(mapping, k, v):
  mapping[k] = v


class Holder(object):
  def __init__(self):
    self.d = {}

  def put(self, k, v):
    _put(self.d, k, v)

  def put_via_method(self, k, v):
    self.put(k, v)

  def put_twice_removed(self, k, v):
    self._inner(self.d, k, v)

  def _inner(self, mapping, k, v):
    _put(mapping, k, v)
    mapping.pop(k + 1, None)


def store_then_mutate_old(m, k, x, other):
  s = m[k]
  m[k] = other
  s.add(x)
  return s


def setdefault_chain(m, k, x):
  m.setdefault(k, set()).add(x)


def discard_and_prune(m, k, x):
  s = m.get(k, NIL)
  if s is not NIL:
    s.discard(x)
    if not s:
      del m[k]


def fresh_empty_list(n):
  """A concrete empty list in the post-state: clauses quantifying over an EMPTY index range of it
  are decided by the range alone (the body cannot be given a sort)."""
  out = []
  return out
