"""C22 (deductive part) — exception flow of usertypes.BaseColumnType.convert and
objtypes.safe_repr for ALL values and ALL column types: they never raise, an error object is
returned unchanged, and the result is either what the type's own do_convert returned or a string.

Model: a value is opaque.  The type-specific `do_convert`, `str(value)` and `repr(value)` are
arbitrary user-level code: each may return something or raise ANY Exception (both outcomes are
explored on every path).  `type(obj).__name__` and str concatenation never raise (builtins).
BaseException that is not Exception (KeyboardInterrupt, SystemExit, ...) is out of scope."""
import z3
from vlib.pysym import *
from vlib.pysym.values import opaque_sort
from vlib.pysym.interp import Model, SelfModel, PyExc

Any = Opaque("AnyValue")


class AnyUserError(Exception):
  """stands for 'any subclass of Exception raised by user-level code'"""


def _may_raise(ip, what):
  """Forks: the call raises some Exception / returns normally."""
  if ip.ctx.fork(2) == 0:
    raise PyExc(AnyUserError, (what,), None)


def _do_convert(ip, self_obj, v):
  _may_raise(ip, "do_convert")
  f = ip.uf("do_convert_result", [opaque_sort("AnyValue")], opaque_sort("AnyValue"))
  return SOpq(f(v.t), "AnyValue")


def _str(ip, v=""):
  if not isinstance(v, SOpq): return str(v)
  _may_raise(ip, "str")
  f = ip.uf("str_of", [opaque_sort("AnyValue")], z3.StringSort())
  return SStr(f(v.t))


def _repr(ip, v):
  if not isinstance(v, SOpq): return repr(v)
  _may_raise(ip, "repr")
  f = ip.uf("repr_of", [opaque_sort("AnyValue")], z3.StringSort())
  return SStr(f(v.t))


class _TypeObj(object):
  __name__ = "T"


def _type(ip, v):
  if not isinstance(v, SOpq): return type(v)
  f = ip.uf("type_name_of", [opaque_sort("AnyValue")], z3.StringSort())
  return ObjVal("type", {"__name__": SStr(f(v.t))})


def _is_raised(ip, v, k):
  import objtypes
  if k is objtypes.RaisedException:
    f = ip.uf("is_raised_exception", [opaque_sort("AnyValue")], z3.BoolSort())
  elif k is str:
    f = ip.uf("is_str", [opaque_sort("AnyValue")], z3.BoolSort())
  else:
    raise Unsupported("isinstance(<any value>, %r)" % (k,))
  return f(v.t)


def _d_is_raised(ip, v):
  import objtypes
  return SBool(_is_raised(ip, v, objtypes.RaisedException))

def _d_same(ip, a, b):
  if isinstance(a, SOpq) and isinstance(b, SOpq): return SBool(a.t == b.t)
  return a is b

def _d_is_dc(ip, result, v):
  """result is exactly what do_convert returned for v"""
  if not isinstance(result, SOpq): return False
  f = ip.uf("do_convert_result", [opaque_sort("AnyValue")], opaque_sort("AnyValue"))
  return SBool(result.t == f(v.t))
def _d_dc(ip, v):
  f = ip.uf("do_convert_result", [opaque_sort("AnyValue")], opaque_sort("AnyValue"))
  return SOpq(f(v.t), "AnyValue")


def build():
  import usertypes
  T = Obj("BaseColumnType", real_cls=usertypes.BaseColumnType,
          consts={"do_convert": SelfModel("type-specific do_convert: returns a value or raises any Exception",
                                          _do_convert)})
  str_stub = Model("str(value): returns a str or raises any Exception", _str)
  str_stub.stands_for = str
  stubs = {"str": str_stub,
           "repr": Model("repr(value): returns a str or raises any Exception", _repr),
           "type": Model("type(obj).__name__ is a str (never raises)", _type)}
  c1 = Contract(
    prefix="C22.convert", target="usertypes:BaseColumnType.convert", file="sandbox/grist/usertypes.py",
    params=dict(self=T, value_to_convert=Any),
    ensures={
      "error_object_unchanged": "implies(is_raised(value_to_convert), same(result, value_to_convert))",
      "converted_or_alttext": "implies(not is_raised(value_to_convert), "
                              "isinstance(result, str) or is_dc(result, value_to_convert))",
    },
    raises={},      # never raises
    stubs=stubs, defs={"is_raised": _d_is_raised, "dc": _d_dc, "is_dc": _d_is_dc, "same": _d_same},
    notes="inlines the real objtypes.safe_repr")
  c1.opq_isinstance["AnyValue"] = _is_raised
  c2 = Contract(
    prefix="C22.safe_repr", target="objtypes:safe_repr", file="sandbox/grist/objtypes.py",
    params=dict(obj=Any), ensures={"returns_str": "isinstance(result, str)"}, raises={},
    stubs=stubs)
  c2.opq_isinstance["AnyValue"] = _is_raised
  return [c1, c2]


CONTRACTS = build()
