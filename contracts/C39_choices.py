"""C39 — RenameChoices cell helpers: ChoiceColumn._rename_cell_choice, ChoiceListColumn.
_rename_cell_choice (simultaneous, element-wise) and ChoiceColumn.rename_choices (which rows and
values are reported).  Choices are opaque values compared with ==; `renames` is a dict.
`type_obj.is_right_type` is an uninterpreted predicate `right(v)` (pure)."""
import z3
from vlib.pysym import *
from vlib.pysym.values import opaque_sort
from vlib.pysym.interp import Model, SelfModel

Choice = Opaque("Choice")


def _right(ip, v):
  f = ip.uf("right", [opaque_sort("Choice")], z3.BoolSort())
  if isinstance(v, SOpt): v = v.val
  return SBool(f(v.t))


def build():
  import column
  out = []
  TypeObj = Obj("ChoiceType", consts={"is_right_type": Model("type_obj.is_right_type (pure)", _right)})
  ColChoice = Obj("ChoiceColumn", real_cls=column.ChoiceColumn, _data=Seq(Opt(Choice)),
                  type_obj=TypeObj)
  out.append(Contract(
    prefix="C39.choice_cell", target="column:ChoiceColumn._rename_cell_choice",
    file="sandbox/grist/column.py",
    params=dict(self=ColChoice, renames=MapOf(Choice, Choice), value=Choice),
    ensures={"mapped_or_none": "(result is None) == (value not in renames) and "
                               "implies(value in renames, result == renames[value])"}))
  ColList = Obj("ChoiceListColumn", real_cls=column.ChoiceListColumn)
  out.append(Contract(
    prefix="C39.choicelist_cell", target="column:ChoiceListColumn._rename_cell_choice",
    file="sandbox/grist/column.py",
    params=dict(self=ColList, renames=MapOf(Choice, Choice), value=Seq(Choice, "tuple")),
    ensures={
      "none_iff_nothing_matches": "(result is None) == forall(i, 0 <= i < len(value), value[i] not in renames)",
      # simultaneous: every element is looked up in the ORIGINAL mapping exactly once (swaps work)
      "elementwise_simultaneous": "implies(result is not None, len(result) == len(value) and "
                                  "forall(i, 0 <= i < len(value), result[i] == "
                                  "(renames[value[i]] if value[i] in renames else value[i])))",
    }))
  defs = {
    "ok": "lambda i: self._data[i] is not None and right(self._data[i]) and self._data[i] in renames",
    "right": _right,
  }
  out.append(Contract(
    prefix="C39.rename_choices", target="column:ChoiceColumn.rename_choices",
    file="sandbox/grist/column.py",
    params=dict(self=ColChoice, renames=MapOf(Choice, Choice)),
    loops={0: LoopSpec(
      "C39.rename_choices.loop", index="idx",
      locals=dict(row_ids=Seq(Int), values=Seq(Opt(Choice))),
      ghost=dict(pos=(MapOf(Int, Int), None)),
      ghost_step="""
        if len(row_ids) > 0 and row_ids[len(row_ids) - 1] == idx:
          pos[idx] = len(row_ids) - 1
      """,
      invariants={
        "aligned": "len(values) == len(row_ids)",
        "sound": "forall(j, 0 <= j < len(row_ids), 0 <= row_ids[j] < idx and ok(row_ids[j]) and "
                 "values[j] == renames[self._data[row_ids[j]]])",
        "increasing": "forall(i, j, 0 <= i < j < len(row_ids), row_ids[i] < row_ids[j])",
        "complete": "forall(i, 0 <= i < idx and ok(i), 0 <= pos[i] < len(row_ids) and row_ids[pos[i]] == i)",
      })},
    ensures={
      "only_matching_rows": "forall(j, 0 <= j < len(result[0]), 0 <= result[0][j] < len(self._data) "
                            "and ok(result[0][j]))",
      "every_matching_row": "forall(i, 0 <= i < len(self._data) and ok(i), "
                            "exists(j, 0 <= j < len(result[0]), result[0][j] == i))",
      "rows_ascending": "forall(i, j, 0 <= i < j < len(result[0]), result[0][i] < result[0][j])",
      "values_aligned_simultaneous": "len(result[1]) == len(result[0]) and "
                                     "forall(j, 0 <= j < len(result[0]), result[1][j] == "
                                     "renames[self._data[result[0][j]]])",
    }, defs=defs))
  return out


CONTRACTS = build()
