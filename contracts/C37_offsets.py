"""C37 (lemma) — textbuilder.Replacer.get_input_pos: on the offset tables' representation invariant
(two parallel lists, both starting at 0, output offsets non-decreasing — what Replacer.__init__
appends) the result is the input offset of the LAST table entry whose output offset is <= out_pos,
plus the distance of out_pos from that entry.  `bisect.bisect_right` is used through its assumed
contract (partition point of a sorted list); its sortedness precondition is an obligation.

Second contract: the offsets loop of Combiner.__init__ (structural slice) against "entry m+1 =
entry m + length of part m", proved with a loop invariant for any number of parts."""
import ast
from vlib.pysym import *
from vlib.pysym.contract import NativeOutcome


def _offsets_slice(fn):
  """Combiner.__init__ from the statement `offset = 0` to the end: the loop that fills _offsets.
  The statements before it (which turn each part into its text) are NOT covered here."""
  for k, st in enumerate(fn.body):
    if isinstance(st, ast.Assign) and isinstance(st.targets[0], ast.Name) and \
        st.targets[0].id == "offset":
      return fn.body[k:]
  return None


def build():
  import textbuilder
  Rep = Obj("Replacer", real_cls=textbuilder.Replacer, _input_offsets=Seq(Int),
            _output_offsets=Seq(Int))
  return [Contract(
    prefix="C37.get_input_pos", target="textbuilder:Replacer.get_input_pos",
    file="sandbox/grist/textbuilder.py",
    params=dict(self=Rep, out_pos=Int),
    requires={
      "parallel_tables": "len(self._input_offsets) == len(self._output_offsets) and "
                         "len(self._output_offsets) >= 1",
      "start_at_zero": "self._output_offsets[0] == 0 and self._input_offsets[0] == 0",
      "output_offsets_ordered": "forall(i, j, 0 <= i < j < len(self._output_offsets), "
                                "self._output_offsets[i] <= self._output_offsets[j])",
      "position_in_text": "out_pos >= 0",
    },
    ensures={
      "relative_to_last_entry_at_or_before": (
        "exists(k, 0 <= k < len(self._output_offsets), "
        "self._output_offsets[k] <= out_pos and "
        "(k + 1 == len(self._output_offsets) or self._output_offsets[k + 1] > out_pos) and "
        "result == self._input_offsets[k] + (out_pos - self._output_offsets[k]))"),
      "identity_before_first_length_change": (
        "implies(forall(k, 1 <= k < len(self._output_offsets), self._output_offsets[k] > out_pos), "
        "result == out_pos)"),
      "tables_untouched": "self._input_offsets == old(self._input_offsets) and "
                          "self._output_offsets == old(self._output_offsets)",
    },
    notes="bisect.bisect_right through its assumed contract; integers are mathematical"),
    _combiner(textbuilder)]


def _combiner(textbuilder):
  """Combiner.__init__'s offsets loop: one entry per part, the first 0, each next one the previous
  plus the length of the previous part's text - hence non-decreasing, which is the sortedness
  Combiner.map_back_patch's bisect calls rely on.  `text_parts` (the local list of the parts'
  texts) enters as a ghost parameter: arbitrary sequences of characters, only len() is used."""
  Comb = Obj("Combiner", real_cls=textbuilder.Combiner, _offsets=Seq(Int))
  loop = LoopSpec(
    "C37.combiner_offsets_loop", index="idx", locals=dict(self=Comb, offset=Int),
    invariants={
      "one_entry_per_part": "len(self._offsets) == idx and offset >= 0",
      "first_is_zero": "implies(idx > 0, self._offsets[0] == 0)",
      "each_entry_is_previous_plus_length": "forall(m, 0 <= m < idx - 1, "
          "self._offsets[m + 1] == self._offsets[m] + len(text_parts[m]))",
      "running_offset": "offset == (self._offsets[idx - 1] + len(text_parts[idx - 1]) "
                        "if idx > 0 else 0)",
    })
  return Contract(
    prefix="C37.combiner_offsets", target="textbuilder:Combiner.__init__",
    file="sandbox/grist/textbuilder.py",
    params=dict(self=Comb, parts=Opaque("Parts"), text_parts=Seq(Seq(Int))),
    body_slice=_offsets_slice,
    slice_desc="from the statement `offset = 0` to the end (the loop filling _offsets)",
    loops={0: loop},
    ensures={
      "one_entry_per_part": "len(self._offsets) == len(text_parts)",
      "first_is_zero": "implies(len(text_parts) > 0, self._offsets[0] == 0)",
      "each_entry_is_previous_plus_length": "forall(m, 0 <= m < len(text_parts) - 1, "
          "self._offsets[m + 1] == self._offsets[m] + len(text_parts[m]))",
      "non_decreasing": "forall(m, 0 <= m < len(text_parts) - 1, "
                        "self._offsets[m] <= self._offsets[m + 1])",
    },
    notes="text parts are sequences of characters (only their lengths are read); the statements "
          "before the slice are covered by the bounded tier only")


def _native(args):
  import textbuilder, types
  s = args["self"]
  fake = types.SimpleNamespace(_input_offsets=list(s._input_offsets),
                               _output_offsets=list(s._output_offsets))
  return textbuilder.Replacer.get_input_pos(fake, args["out_pos"])


def _native_combiner(args):
  import textbuilder, types
  comb = textbuilder.Combiner(["x" * len(t) for t in args["text_parts"]])
  return NativeOutcome(None, dict(args, self=types.SimpleNamespace(_offsets=list(comb._offsets))))


CONTRACTS = build()
CONTRACTS[0].native = _native
CONTRACTS[1].native = _native_combiner
