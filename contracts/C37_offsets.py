"""C37 (lemma) — textbuilder.Replacer.get_input_pos: on the offset tables' representation invariant
(two parallel lists, both starting at 0, output offsets non-decreasing — what Replacer.__init__
appends) the result is the input offset of the LAST table entry whose output offset is <= out_pos,
plus the distance of out_pos from that entry.  `bisect.bisect_right` is used through its assumed
contract (partition point of a sorted list); its sortedness precondition is an obligation."""
from vlib.pysym import *


def build():
  import textbuilder
  Rep = Obj("Replacer", real_cls=textbuilder.Replacer, _input_offsets=Seq(Int),
            _output_offsets=Seq(Int))
  return [Contract(
    prefix="C37.get_input_pos", target="textbuilder:Replacer.get_input_pos",
    file="sandbox/grist/textbuilder.py",
    params=dict(self=Rep, out_pos=Int),
    requires={
      "parallel_tables": "len(self._input_offsets) == len(self._output_offsets) and "
                         "len(self._output_offsets) >= 1",
      "start_at_zero": "self._output_offsets[0] == 0 and self._input_offsets[0] == 0",
      "output_offsets_ordered": "forall(i, j, 0 <= i < j < len(self._output_offsets), "
                                "self._output_offsets[i] <= self._output_offsets[j])",
      "position_in_text": "out_pos >= 0",
    },
    ensures={
      "relative_to_last_entry_at_or_before": (
        "exists(k, 0 <= k < len(self._output_offsets), "
        "self._output_offsets[k] <= out_pos and "
        "(k + 1 == len(self._output_offsets) or self._output_offsets[k + 1] > out_pos) and "
        "result == self._input_offsets[k] + (out_pos - self._output_offsets[k]))"),
      "identity_before_first_length_change": (
        "implies(forall(k, 1 <= k < len(self._output_offsets), self._output_offsets[k] > out_pos), "
        "result == out_pos)"),
      "tables_untouched": "self._input_offsets == old(self._input_offsets) and "
                          "self._output_offsets == old(self._output_offsets)",
    },
    notes="bisect.bisect_right through its assumed contract; integers are mathematical")]


def _native(args):
  import textbuilder, types
  s = args["self"]
  fake = types.SimpleNamespace(_input_offsets=list(s._input_offsets),
                               _output_offsets=list(s._output_offsets))
  return textbuilder.Replacer.get_input_pos(fake, args["out_pos"])


CONTRACTS = build()
CONTRACTS[0].native = _native
