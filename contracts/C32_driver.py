"""Bounded evaluation of one vlib.rtc.fn.FnContract with failures grouped by (clause, class).

Same evaluation as vlib.rtc.fn.check (the contract is evaluated by fn.evaluate on the REAL
function), but each worker keeps the first failing input and a count for *every* distinct
(clause, class) instead of the first 40 failures: when a property has frequent known findings,
a rare unexplained failure must not be crowded out.  Used by checks C32, C33, C35, C17."""
import multiprocessing as mp
import os
import time
import traceback

from vlib import common
from vlib.rtc import fn

_REG = {}


def _worker(task):
  key, w, W, tier, seed, limit_s = task
  contract, cases = _REG[key]
  out = {"n": 0, "skipped": 0, "nontrivial": set(), "failures": {}, "samples": [], "raised": 0}
  t0 = time.time()
  try:
    for i, args in enumerate(cases(tier, seed)):
      if i % W != w: continue
      if limit_s and time.time() - t0 > limit_s:
        out["truncated"] = True
        break
      shown = repr(contract.show(args))
      status, failures, result, exc = fn.evaluate(contract, args)
      if status == "skipped":
        out["skipped"] += 1
        continue
      out["n"] += 1
      if exc is not None: out["raised"] += 1
      if contract.nontrivial(args, result, exc): out["nontrivial"].add(hash(shown))
      if len(out["samples"]) < 2 and (i // W) % 97 == 0:
        out["samples"].append({"args": shown[:400], "result": repr(result)[:300],
                               "raised": repr(exc) if exc else None})
      for clause, detail in failures:
        cls = contract.classify(args, clause, detail)
        k = (clause, cls)
        f = out["failures"].get(k)
        if f is None:
          out["failures"][k] = {"clause": clause, "class": cls, "detail": str(detail)[:800],
                                "args": shown[:3000], "result": repr(result)[:800],
                                "raised": repr(exc) if exc else None, "count": 1, "index": i}
        else:
          f["count"] += 1
  except Exception:
    out["crash"] = traceback.format_exc(limit=8)
  out["nontrivial"] = len(out["nontrivial"])
  return out


def check(report, contract, cases, procs=None, limit_quick_s=70, limit_thorough_s=1000,
          exhaustive=None):
  tier = common.tier()
  procs = procs or min(16, os.cpu_count() or 4)
  key = contract.name
  _REG[key] = (contract, cases)
  limit = limit_quick_s if tier == "quick" else limit_thorough_s
  tasks = [(key, w, procs, tier, common.seed(), limit) for w in range(procs)]
  with mp.get_context("fork").Pool(procs) as pool:
    outs = pool.map(_worker, tasks)
  cov = report.coverage
  n = nontriv = skipped = raised = 0
  truncated = False
  merged = {}
  for o in outs:
    if o.get("crash"):
      report.crash("bounded contract %s: %s" % (contract.name, o["crash"]))
      continue
    n += o["n"]; nontriv += o["nontrivial"]; skipped += o["skipped"]; raised += o["raised"]
    truncated = truncated or o.get("truncated", False)
    cov.setdefault("samples", [])
    if len(cov["samples"]) < 6: cov["samples"].extend(o["samples"][:1])
    for k, f in o["failures"].items():
      m = merged.get(k)
      if m is None:
        merged[k] = dict(f)
      else:
        m["count"] += f["count"]
        if f["index"] < m["index"]:
          c = m["count"]; merged[k] = dict(f); merged[k]["count"] = c
  by_class = []
  for k in sorted(merged):
    f = merged[k]
    rec = {"obligation": f["clause"], "class": f["class"], "function": contract.name,
           "failing_input": f["args"], "result": f["result"], "raised": f["raised"],
           "detail": f["detail"], "occurrences": f["count"], "tier": "bounded"}
    new = report.violation("%s-%s" % (f["clause"], f["class"]), rec, has_input=True)
    by_class.append({"obligation": f["clause"], "class": f["class"], "occurrences": f["count"],
                     "known": not new, "first_input": f["args"][:300]})
  cov["evaluations"] = cov.get("evaluations", 0) + n
  cov["distinct_nontrivial"] = cov.get("distinct_nontrivial", 0) + nontriv
  cov.setdefault("failure_classes", []).extend(by_class)
  cov.setdefault("contracts", []).append({
    "function": contract.name, "clauses": sorted(contract.ensures), "evaluations": n,
    "raised": raised, "precondition_skipped": skipped, "truncated_by_time_limit": truncated})
  if exhaustive is not None:
    cov["exhaustive"] = bool(exhaustive) and not truncated and cov.get("exhaustive", True)
  if n == 0:
    report.crash("contract %s was never exercised (zero evaluations)" % contract.name)
  return n
