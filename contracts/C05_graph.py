"""C05 / C18 (lemmas) — depend.Graph, the dependency graph that drives incremental recalculation.

The graph is kept three times: `_all_edges` (a set of Edge(out_node, in_node, relation): out_node
depends on in_node) and two indexes, `_in_node_map` (node -> edges having it as in_node: its
dependents) and `_out_node_map` (node -> edges having it as out_node: its dependencies).  The
abstract view is the edge set; the representation invariant says both indexes are exactly that set,
bucketed by the right endpoint:
      IN    e in _all_edges  ==  e.in_node in _in_node_map and e in _in_node_map[e.in_node]
      OUT   e in _all_edges  ==  e.out_node in _out_node_map and e in _out_node_map[e.out_node]
      BUCKETS  every edge stored under node n in _in_node_map (_out_node_map) has in_node
               (out_node) n
Contracts:
      add_edge(o, i, r)            edges' = edges + {Edge(o, i, r)}
      clear_dependencies(o)        edges' = edges - {e : e.out_node == o}      (loop, `self` havocked)
      remove_node_if_unused(n)     False and nothing changes when n still has dependents; otherwise
                                   True, edges' = edges - {e : e.out_node == n}, n not in _in_node_map
each preserving the invariant; a stale index entry is exactly what makes invalidation miss a
dependent (C05) or keep a dependency of a cell that no longer reads it (C18).

Modelling: Node and Relation are opaque values (hashed / compared only); Edge is an opaque value
with the three projections and the constructor axioms of a namedtuple (Edge(o, i, r) has those
fields; an Edge is determined by its fields).  `relation.reset_all()` is an assumed no-op on the
graph (it is: relation.py resets the relation's own row maps).  `invalidate_deps` is NOT under
contract here (its worklist needs a reachability invariant over the relations' row mappings;
engine-level C05 / C18 checks exercise it)."""
import z3
from vlib.pysym import *
from vlib.pysym.values import opaque_sort
from vlib.pysym.interp import Model, SelfModel

Node, Rel, Edge = Opaque("Node"), Opaque("Relation"), Opaque("Edge")


def _ufs(ip):
  E, N, R = opaque_sort("Edge"), opaque_sort("Node"), opaque_sort("Relation")
  return dict(out=ip.uf("edge_out", [E], N), inn=ip.uf("edge_in", [E], N), rel=ip.uf("edge_rel", [E], R),
              mk=ip.uf("mk_edge", [N, N, R], E))


def _mk_edge(ip, o, i, r):
  u = _ufs(ip)
  return SOpq(u["mk"](Node.leaves(o)[0], Node.leaves(i)[0], Rel.leaves(r)[0]), "Edge")


def _axioms(ip):
  u = _ufs(ip)
  E, N, R = opaque_sort("Edge"), opaque_sort("Node"), opaque_sort("Relation")
  o, i, r, e = z3.Const("ax_o", N), z3.Const("ax_i", N), z3.Const("ax_r", R), z3.Const("ax_e", E)
  m = u["mk"](o, i, r)
  return [z3.ForAll([o, i, r], z3.And(u["out"](m) == o, u["inn"](m) == i, u["rel"](m) == r)),
          z3.ForAll([e], u["mk"](u["out"](e), u["inn"](e), u["rel"](e)) == e)]


def _setup(c):
  c.stubs["Edge"] = Model("Edge(out_node, in_node, relation): namedtuple constructor", _mk_edge)
  c.hooks[("attr", "Edge", "out_node")] = lambda ip, e: SOpq(_ufs(ip)["out"](e.t), "Node")
  c.hooks[("attr", "Edge", "in_node")] = lambda ip, e: SOpq(_ufs(ip)["inn"](e.t), "Node")
  c.hooks[("attr", "Edge", "relation")] = lambda ip, e: SOpq(_ufs(ip)["rel"](e.t), "Relation")
  c.hooks[("method", "Relation", "reset_all")] = lambda ip, r: None
  c.raw_axioms = _axioms
  return c


def build():
  import depend
  out = []
  G = lambda: Obj("Graph", real_cls=depend.Graph, _all_edges=SetOf(Edge),
                  _in_node_map=MapOf(Node, SetOf(Edge)), _out_node_map=MapOf(Node, SetOf(Edge)))
  view = {
    "has": "lambda g, e: e in g._all_edges",
    "idx_in": "lambda g: forall(e__Edge, True, has(g, e__Edge) == (e__Edge.in_node in g._in_node_map and "
              "e__Edge in g._in_node_map[e__Edge.in_node]))",
    "idx_out": "lambda g: forall(e__Edge, True, has(g, e__Edge) == (e__Edge.out_node in g._out_node_map and "
               "e__Edge in g._out_node_map[e__Edge.out_node]))",
    "buckets": "lambda g: forall(n__Node, e__Edge, n__Node in g._in_node_map and e__Edge in g._in_node_map[n__Node], "
               "e__Edge.in_node == n__Node) and "
               "forall(n__Node, e__Edge, n__Node in g._out_node_map and e__Edge in g._out_node_map[n__Node], "
               "e__Edge.out_node == n__Node)",
  }
  inv = {"idx_in": "idx_in(self)", "idx_out": "idx_out(self)", "buckets": "buckets(self)"}
  out.append(_setup(Contract(
    prefix="C05.graph.add_edge", target="depend:Graph.add_edge", file="sandbox/grist/depend.py",
    params=dict(self=G(), out_node=Node, in_node=Node, relation=Rel), requires=inv,
    ensures=dict(inv, view="forall(e__Edge, True, has(self, e__Edge) == (has(old(self), e__Edge) or "
                           "e__Edge == Edge(out_node, in_node, relation)))"),
    defs=view)))
  loopdefs = dict(view,
    seen="lambda e: e in __iterset__ and __position__[e] < idx",
    in_has="lambda g, n, e: n in g._in_node_map and e in g._in_node_map[n]",
    out_has="lambda g, n, e: n in g._out_node_map and e in g._out_node_map[n]")
  out.append(_setup(Contract(
    prefix="C05.graph.clear_dependencies", target="depend:Graph.clear_dependencies",
    file="sandbox/grist/depend.py",
    params=dict(self=G(), out_node=Node), requires=inv,
    loops={0: LoopSpec("C05.graph.clear_dependencies.loop", index="idx", locals=dict(self=G()),
      invariants={
        "out_index_final": "forall(n__Node, e__Edge, True, out_has(self, n__Node, e__Edge) == "
                           "(n__Node != out_node and out_has(old(self), n__Node, e__Edge))) and "
                           "forall(n__Node, True, (n__Node in self._out_node_map) == "
                           "(n__Node != out_node and n__Node in old(self)._out_node_map))",
        "edges_progress": "forall(e__Edge, True, has(self, e__Edge) == (has(old(self), e__Edge) and "
                          "not (e__Edge.out_node == out_node and seen(e__Edge))))",
        "in_index_progress": "forall(n__Node, e__Edge, True, in_has(self, n__Node, e__Edge) == "
                             "(in_has(old(self), n__Node, e__Edge) and "
                             "not (e__Edge.out_node == out_node and seen(e__Edge)))) and "
                             "forall(n__Node, True, (n__Node in self._in_node_map) == (n__Node in old(self)._in_node_map))",
        "iterating_the_dependencies": "forall(i, 0 <= i < len(__iterated__), has(old(self), __iterated__[i]) and "
                                      "__iterated__[i].out_node == out_node) and "
                                      "forall(e__Edge, has(old(self), e__Edge) and e__Edge.out_node == out_node, "
                                      "exists(i, 0 <= i < len(__iterated__), __iterated__[i] == e__Edge))",
      })},
    ensures=dict(inv, view="forall(e__Edge, True, has(self, e__Edge) == (has(old(self), e__Edge) and "
                           "e__Edge.out_node != out_node))",
                 out_node_forgotten="out_node not in self._out_node_map"),
    defs=loopdefs,
    notes="loop over the popped bucket (a set): iteration order is the ghost sequence __iterated__; "
          "`self` is havocked by the loop, the invariants carry all three containers")))
  # remove_node_if_unused calls clear_dependencies: checked against THAT method's contract (modular)
  out[-1].modular = True
  out.append(_setup(Contract(
    prefix="C05.graph.remove_node_if_unused", target="depend:Graph.remove_node_if_unused",
    file="sandbox/grist/depend.py",
    params=dict(self=G(), node=Node), requires=inv,
    ensures=dict(inv,
      refused_when_depended_on="implies(exists(e__Edge, True, has(old(self), e__Edge) and e__Edge.in_node == node), "
                               "result == False and forall(e__Edge, True, has(self, e__Edge) == has(old(self), e__Edge)))",
      removed_otherwise="implies(not exists(e__Edge, True, has(old(self), e__Edge) and e__Edge.in_node == node), "
                        "result == True and node not in self._in_node_map and "
                        "forall(e__Edge, True, has(self, e__Edge) == (has(old(self), e__Edge) and e__Edge.out_node != node)))"),
    defs=view)))
  # ---- invalidate_deps: the worklist that marks everything depending on a change -----------------
  Rows = SetOf(Int)
  RMap = MapOf(Node, Rows)
  Work = Seq(Tup(Node, Rows))
  def affp(ip, rel, r, r2):
    """affp(rel, r, r2): row r2 of the dependent column is affected by a change of row r (the
    relation's row mapping, uninterpreted)."""
    f = ip.uf("affected", [opaque_sort("Relation"), z3.IntSort(), z3.IntSort()], z3.BoolSort())
    return ip.wrap_bool(f(Rel.leaves(rel)[0], ip.int_term(r), ip.int_term(r2)))
  def get_affected_rows(ip, rel, rows):
    """Assumed contract of Relation.get_affected_rows(set of rows): the union of the rows affected
    by each member (proved for ReferenceRelation in C10_relation.py; true of IdentityRelation and
    preserved by ComposedRelation).  Never ALL_ROWS for a set argument."""
    f = ip.uf("affected", [opaque_sort("Relation"), z3.IntSort(), z3.IntSort()], z3.BoolSort())
    res = ip.ctx.fresh(Rows, "affected_rows")
    r, r2 = z3.Int("ga?r%d" % ip._qid()), z3.Int("ga?q%d" % ip._qid())
    ip.ctx.assume(z3.ForAll([r2], z3.Select(res.arr, r2) ==
                            z3.Exists([r], z3.And(z3.Select(rows.arr, r), f(rel.t, r, r2)))))
    ip.ctx.assumed_contracts.add("Relation.get_affected_rows(rows) = union over the rows of the "
                                 "rows each one affects (pointwise row mapping)")
    return res
  idefs = dict(view,
    affp=affp,
    inR="lambda R, n, r: n in R and r in R[n]",
    pend="lambda W, n, r2: exists(j, 0 <= j < len(W), W[j][0] == n and r2 in W[j][1])",
    closed_upto="lambda R, W: forall(e__Edge, r, r2, has(self, e__Edge) and inR(R, e__Edge.in_node, r) "
                "and affp(e__Edge.relation, r, r2), inR(R, e__Edge.out_node, r2) or pend(W, e__Edge.out_node, r2))",
    nothing=lambda ip: Work.build(Work.leaves([])))
  c = _setup(Contract(
    prefix="C05.graph.invalidate_deps", target="depend:Graph.invalidate_deps", file="sandbox/grist/depend.py",
    params=dict(self=G(), dirty_node=Node, dirty_rows=Rows, recompute_map=RMap, include_self=True),
    requires=dict(idx_in="idx_in(self)", buckets="buckets(self)",
                  closed_before="forall(e__Edge, r, r2, has(self, e__Edge) and inR(recompute_map, e__Edge.in_node, r) "
                                "and affp(e__Edge.relation, r, r2), inR(recompute_map, e__Edge.out_node, r2))"),
    loops={
      0: LoopSpec("C05.graph.invalidate_deps.worklist",
                  locals=dict(to_invalidate=Work, recompute_map=RMap, dirty_node=Node, dirty_rows=Rows,
                              out_rows=Rows, affected_rows=Rows, edge=Edge),
                  invariants={
                    "closed_up_to_pending": "closed_upto(recompute_map, to_invalidate)",
                    "only_grows": "forall(n__Node, r, inR(old(recompute_map), n__Node, r), inR(recompute_map, n__Node, r))",
                    "start_rows_marked_or_pending": "forall(r, r in old(dirty_rows), inR(recompute_map, old(dirty_node), r) "
                                                    "or pend(to_invalidate, old(dirty_node), r))",
                    "include_self": "include_self == True",
                  }),
      1: LoopSpec("C05.graph.invalidate_deps.edges", index="idx",
                  locals=dict(to_invalidate=Work, affected_rows=Rows, edge=Edge),
                  ghost=dict(W0=(Work, "to_invalidate")),
                  invariants={
                    "older_items_kept": "len(to_invalidate) == len(W0) + idx and "
                                        "forall(j, 0 <= j < len(W0), to_invalidate[j] == W0[j])",
                    "one_item_per_dependent": "forall(i, 0 <= i < idx, to_invalidate[len(W0) + i][0] == __iterated__[i].out_node "
                                              "and forall(r2, True, (r2 in to_invalidate[len(W0) + i][1]) == "
                                              "exists(r, r in dirty_rows, affp(__iterated__[i].relation, r, r2))))",
                  }),
    },
    ensures={
      "closed": "forall(e__Edge, r, r2, has(self, e__Edge) and inR(recompute_map, e__Edge.in_node, r) "
                "and affp(e__Edge.relation, r, r2), inR(recompute_map, e__Edge.out_node, r2))",
      "only_grows": "forall(n__Node, r, inR(old(recompute_map), n__Node, r), inR(recompute_map, n__Node, r))",
      "dirty_rows_marked": "forall(r, r in old(dirty_rows), inR(recompute_map, old(dirty_node), r))",
    },
    defs=idefs,
    notes="specific rows only (dirty_rows and every recompute_map entry are sets of rows, not "
          "ALL_ROWS); partial correctness (termination of the worklist is not proved); the graph "
          "is not modified on these paths"))
  c.stubs["SortedSet"] = Model("SortedSet(): empty set of rows", lambda ip: Rows.build(Rows.leaves(set())))
  c.hooks[("method", "Relation", "get_affected_rows")] = get_affected_rows
  out.append(c)
  # include_self=False: the changed node holds raw data - only its dependents are marked
  dep_marked = ("forall(e__Edge, r, r2, has(self, e__Edge) and e__Edge.in_node == old(dirty_node) and "
                "r in old(dirty_rows) and affp(e__Edge.relation, r, r2), %s)")
  c2 = _setup(Contract(
    prefix="C05.graph.invalidate_deps_of_data", target="depend:Graph.invalidate_deps", file="sandbox/grist/depend.py",
    params=dict(self=G(), dirty_node=Node, dirty_rows=Rows, recompute_map=RMap, include_self=False),
    requires=dict(c.requires),
    loops={
      0: LoopSpec("C05.graph.invalidate_deps_of_data.worklist",
                  locals=dict(to_invalidate=Work, recompute_map=RMap, dirty_node=Node, dirty_rows=Rows,
                              out_rows=Rows, affected_rows=Rows, edge=Edge, include_self=Bool),
                  invariants={
                    "closed_up_to_pending": "closed_upto(recompute_map, to_invalidate)",
                    "only_grows": "forall(n__Node, r, inR(old(recompute_map), n__Node, r), inR(recompute_map, n__Node, r))",
                    "first_item_or_dependents_pending":
                      "(not include_self and len(to_invalidate) == 1 and to_invalidate[0][0] == old(dirty_node) and "
                      "forall(r, True, (r in to_invalidate[0][1]) == (r in old(dirty_rows))) and "
                      "closed_upto(recompute_map, nothing())) or "
                      "(include_self and " + dep_marked % "inR(recompute_map, e__Edge.out_node, r2) or pend(to_invalidate, e__Edge.out_node, r2)" + ")",
                  }),
      1: LoopSpec("C05.graph.invalidate_deps_of_data.edges", index="idx",
                  locals=dict(to_invalidate=Work, affected_rows=Rows, edge=Edge),
                  ghost=dict(W0=(Work, "to_invalidate")),
                  invariants=dict(c.loops[1].invariants)),
    },
    ensures={
      "closed": c.ensures["closed"], "only_grows": c.ensures["only_grows"],
      "dependents_of_the_dirty_rows_marked": dep_marked % "inR(recompute_map, e__Edge.out_node, r2)",
    },
    defs=idefs, notes=c.notes))
  c2.stubs["SortedSet"] = c.stubs["SortedSet"]
  c2.hooks[("method", "Relation", "get_affected_rows")] = get_affected_rows
  out.append(c2)
  return out


CONTRACTS = build()
