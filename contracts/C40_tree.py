"""C40 (deductive part) — predicate_formula.TreeConverter.visit_* by structural induction.

For each node class the REAL visit method is executed on a symbolic node; visits of children are
abstracted by the induction hypothesis `T(child)` (an uninterpreted function: "the faithful tree of
the child").  The obligation is that the returned list is exactly the row of the documented node
table for that class: tag, arity, child order - the table is what the JS interpreter
(app/common/PredicateFormula.ts) and the bounded tier's tree interpreter read, so shape equality is
what "faithful" means at this level.  Unsupported operators must raise SyntaxError.

Everything in a tree is one opaque sort `Tree` (tags and attribute names are embedded by
uninterpreted injections), so that lists of mixed content stay homogeneous.  Not covered here
(bounded tier only): visit_Constant, visit_Call, the Comment wrapper, tokenisation."""
import ast
import z3
from vlib.pysym import *
from vlib.pysym.values import opaque_sort
from vlib.pysym.interp import Model, SelfModel, PyExc

Tree = Opaque("Tree")
Node = Opaque("AstNode")
Op = Opaque("AstOp")

ARITH = (ast.Add, ast.Sub, ast.Mult, ast.Div, ast.Mod)


def _T(ip, node):
  f = ip.uf("T", [opaque_sort("AstNode")], opaque_sort("Tree"))
  return SOpq(f(node.t), "Tree")


def _visit(ip, self_obj, node):
  ip.ctx.assumed_contracts.add("induction hypothesis: self.visit(child) == T(child)")
  return _T(ip, node)


def _opname(ip, op):
  f = ip.uf("op_name", [opaque_sort("AstOp")], opaque_sort("Tree"))
  return SOpq(f(op.t), "Tree")


def _op_obj(op):
  """node.op: only its class name and class membership are observable."""
  return op


def _isinstance_op(ip, op, k):
  if k in ARITH or k is ast.Not:
    f = ip.uf("is_" + k.__name__, [opaque_sort("AstOp")], z3.BoolSort())
    return f(op.t)
  raise Unsupported("isinstance(op, %r)" % (k,))


def _strtree(ip, s):
  """embedding of a constant tag / attribute string into Tree"""
  f = ip.uf("tag", [z3.StringSort()], opaque_sort("Tree"))
  return SOpq(f(z3.StringVal(s) if isinstance(s, str) else s.t), "Tree")


def _generic_visit(ip, self_obj, node):
  raise PyExc(SyntaxError, ("Unsupported syntax",), None)


def _conv():
  import predicate_formula
  return Obj("TreeConverter", real_cls=predicate_formula.TreeConverter, consts={
      "visit": SelfModel("self.visit(child) (induction hypothesis)", _visit),
      "generic_visit": SelfModel("generic_visit raises SyntaxError (real method, 1 line)", _generic_visit)})


def _contract(name, node_shape, ensures, raises=None, requires=None):
  c = Contract(prefix="C40." + name, target="predicate_formula:TreeConverter." + name,
               file="sandbox/grist/predicate_formula.py",
               params=dict(self=_conv(), node=node_shape), ensures=ensures, raises=raises or {},
               requires=requires or {},
               defs={"T": lambda ip, n: _T(ip, n), "name": lambda ip, op: _opname(ip, op),
                     "tag": lambda ip, s: _strtree(ip, s),
                     "arith": lambda ip, op: SBool(z3.Or(*[_isinstance_op(ip, op, k) for k in ARITH])),
                     "is_not": lambda ip, op: SBool(_isinstance_op(ip, op, ast.Not))})
  c.opq_isinstance["AstOp"] = _isinstance_op
  # `[tag] + [...]`: a constant string head joins Tree elements: embed it
  c.hooks[("attr", "AstOp", "__class__")] = lambda ip, op: ObjVal("opclass", {"__name__": _opname(ip, op)})
  return c


def _coerce_tree(v):
  if isinstance(v, str):
    return z3.Function("tag", z3.StringSort(), opaque_sort("Tree"))(z3.StringVal(v))
  return None

from vlib.pysym.values import Opaque as _Opaque
_Opaque.coercions["Tree"] = _coerce_tree


def build():
  out = []
  out.append(_contract("visit_BoolOp", Obj("BoolOp", op=Op, values=Seq(Node)), {
    "table_row": "len(result) == 1 + len(node.values) and result[0] == name(node.op) and "
                 "forall(i, 0 <= i < len(node.values), result[1 + i] == T(node.values[i]))"}))
  out.append(_contract("visit_BinOp", Obj("BinOp", op=Op, left=Node, right=Node), {
    "table_row": "len(result) == 3 and result[0] == name(node.op) and result[1] == T(node.left) "
                 "and result[2] == T(node.right)",
    "only_arithmetic": "arith(node.op)"},
    raises={"SyntaxError": "not arith(node.op)"}))
  out.append(_contract("visit_UnaryOp", Obj("UnaryOp", op=Op, operand=Node), {
    "table_row": "len(result) == 2 and result[0] == name(node.op) and result[1] == T(node.operand)",
    "only_not": "is_not(node.op)"},
    raises={"SyntaxError": "not is_not(node.op)"}))
  out.append(_contract("visit_Compare", Obj("Compare", left=Node, ops=Seq(Op), comparators=Seq(Node)), {
    "table_row": "len(result) == 3 and result[0] == name(node.ops[0]) and result[1] == T(node.left) "
                 "and result[2] == T(node.comparators[0])",
    "single_comparison": "len(node.ops) == 1 and len(node.comparators) == 1"},
    raises={"SyntaxError": "len(node.ops) != 1 or len(node.comparators) != 1"}))
  out.append(_contract("visit_Expression", Obj("Expression", body=Node), {
    "transparent": "result == T(node.body)"}))
  out.append(_contract("visit_Attribute", Obj("Attribute", value=Node, attr=Opaque("Ident")), {
    "table_row": "len(result) == 3 and result[0] == 'Attr' and result[1] == T(node.value) and "
                 "result[2] == node.attr"}))
  for meth in ("visit_List", "visit_Tuple"):
    out.append(_contract(meth, Obj("List", elts=Seq(Node)), {
      "table_row": "len(result) == 1 + len(node.elts) and result[0] == tag('List') and "
                   "forall(i, 0 <= i < len(node.elts), result[1 + i] == T(node.elts[i]))"}))
  out.append(_contract("visit_Name", Obj("Name", id=Str), {
    "named_constants": "implies(node.id == 'True', result == ['Const', True]) and "
                       "implies(node.id == 'False', result == ['Const', False]) and "
                       "implies(node.id == 'None', result == ['Const', None])",
    "plain_name": "implies(node.id != 'True' and node.id != 'False' and node.id != 'None', "
                  "len(result) == 2 and result[0] == 'Name' and result[1] == node.id)"}))
  return out


CONTRACTS = build()


def dispatch_report():
  """Exhaustive (reflection over the `ast` module): which expression / operator classes have a
  visit_ method, and that every other one reaches generic_visit (SyntaxError)."""
  import predicate_formula
  tc = predicate_formula.TreeConverter
  handled, rejected = [], []
  for name in sorted(dir(ast)):
    k = getattr(ast, name)
    if isinstance(k, type) and issubclass(k, ast.expr) and k is not ast.expr:
      (handled if hasattr(tc, "visit_" + name) else rejected).append(name)
  probe = {}
  conv = tc()
  for name in rejected:
    k = getattr(ast, name)
    try:
      node = k()
      node.lineno, node.col_offset = 1, 0
      conv.visit(node)
      probe[name] = "ACCEPTED"
    except SyntaxError:
      probe[name] = "SyntaxError"
    except Exception as e:          # constructing an empty node may not be visitable otherwise
      probe[name] = type(e).__name__
  return handled, rejected, probe
