"""Shared lemmas about the column store and the row-id view (used by C01, C27, C41).

  * column.BaseColumn.set / unset / growto / raw_get / size: a column is a total map
    row -> value with a default; set(r, v) changes exactly slot r (requires r >= 0: a negative
    index would silently write another slot - the call sites are checked for this at run time).
  * table.Table.RowIDs.__contains__ / __iter__ / max against the view
        rows = { r : 0 < r < size and id[r] > 0 } :
    iteration yields exactly the view in increasing order, max() is its maximum (0 when empty),
    and max() terminates (decreases last)."""
import z3
from vlib.pysym import *
from vlib.pysym.values import opaque_sort
from vlib.pysym.interp import Model, SelfModel

Cell = Opaque("Cell")


def _default(ip):
  return SOpq(z3.Const("default_cell", opaque_sort("Cell")), "Cell")


def build():
  import column, table
  out = []
  # ---- store ------------------------------------------------------------------------------
  TypeObj = lambda: Obj("TypeObj", consts={"default": SOpq(z3.Const("default_cell", opaque_sort("Cell")), "Cell")})
  ColS = lambda: Obj("BaseColumn", real_cls=column.BaseColumn, _data=Seq(Cell), type_obj=TypeObj())
  view = {
    "dflt": "lambda: self.type_obj.default",
    "get": "lambda c, k: (c._data[k] if 0 <= k < len(c._data) else dflt())",
  }
  out.append(Contract(
    prefix="L.store.set", target="column:BaseColumn.set", file="sandbox/grist/column.py",
    params=dict(self=ColS(), row_id=Int, value=Cell),
    requires={"nonneg_row": "row_id >= 0"},
    ensures={
      "slot_written": "get(self, row_id) == value and row_id < len(self._data)",
      "other_slots_kept": "forall(k, k >= 0 and k != row_id, get(self, k) == get(old(self), k))",
      "size": "len(self._data) == max(len(old(self)._data), row_id + 1)",
    }, defs=view, notes="inlines the real growto / getdefault"))
  out.append(Contract(
    prefix="L.store.unset", target="column:BaseColumn.unset", file="sandbox/grist/column.py",
    params=dict(self=ColS(), row_id=Int),
    requires={"nonneg_row": "row_id >= 0"},
    ensures={
      "slot_default": "get(self, row_id) == dflt()",
      "other_slots_kept": "forall(k, k >= 0 and k != row_id, get(self, k) == get(old(self), k))",
    }, defs=view, notes="inlines the real set / growto / getdefault"))
  out.append(Contract(
    prefix="L.store.raw_get", target="column:BaseColumn.raw_get", file="sandbox/grist/column.py",
    params=dict(self=ColS(), row_id=Int),
    requires={"nonneg_row": "row_id >= 0"},
    ensures={"reads_view": "result == get(self, row_id)",
             "pure": "len(self._data) == len(old(self)._data) and "
                     "forall(k, 0 <= k < len(self._data), self._data[k] == old(self)._data[k])"},
    defs=view))
  out.append(Contract(
    prefix="L.store.growto", target="column:BaseColumn.growto", file="sandbox/grist/column.py",
    params=dict(self=ColS(), size=Int),
    ensures={"view_unchanged": "forall(k, k >= 0, get(self, k) == get(old(self), k))",
             "size": "len(self._data) == max(len(old(self)._data), size)"},
    defs=view))
  # ---- RowIDs -------------------------------------------------------------------------------
  IdType = Obj("TypeObj", consts={"default": 0})
  IdCol = Obj("BaseColumn", real_cls=column.BaseColumn, _data=Seq(Int), type_obj=IdType)
  RowIDs = lambda: Obj("RowIDs", real_cls=table.Table.RowIDs, _id_column=IdCol)
  rdefs = {
    "size": "lambda: len(self._id_column._data)",
    "member": "lambda r: 0 < r < size() and self._id_column._data[r] > 0",
  }
  req = {"has_empty_record": "size() >= 1 and self._id_column._data[0] <= 0"}
  out.append(Contract(
    prefix="L.rowids.contains", target="table:Table.RowIDs.__contains__", file="sandbox/grist/table.py",
    params=dict(self=RowIDs(), row_id=Int), requires=req,
    ensures={"is_view_membership": "result == member(row_id)",
             "zero_and_negative_never_members": "implies(row_id <= 0, result == False)"},
    defs=rdefs, notes="inlines the real BaseColumn.size / raw_get / getdefault"))
  out.append(Contract(
    prefix="L.rowids.iter", target="table:Table.RowIDs.__iter__", file="sandbox/grist/table.py",
    params=dict(self=RowIDs()), requires=req,
    loops={0: LoopSpec("L.rowids.iter.loop", index="idx", locals=dict(__yielded__=Seq(Int)),
                       ghost=dict(pos=(MapOf(Int, Int), None)),
                       ghost_step="""
                         if len(__yielded__) > 0 and __yielded__[len(__yielded__) - 1] == idx:
                           pos[idx] = len(__yielded__) - 1
                       """,
                       invariants={
                         "sound": "forall(j, 0 <= j < len(__yielded__), 0 <= __yielded__[j] < idx "
                                  "and member(__yielded__[j]))",
                         "increasing": "forall(i, j, 0 <= i < j < len(__yielded__), "
                                       "__yielded__[i] < __yielded__[j])",
                         "complete": "forall(r, 0 <= r < idx and member(r), "
                                     "0 <= pos[r] < len(__yielded__) and __yielded__[pos[r]] == r)",
                       })},
    ensures={"yields_only_rows": "forall(j, 0 <= j < len(result), member(result[j]))",
             "yields_every_row": "forall(r, member(r), exists(j, 0 <= j < len(result), result[j] == r))",
             "strictly_increasing": "forall(i, j, 0 <= i < j < len(result), result[i] < result[j])"},
    defs=rdefs))
  out.append(Contract(
    prefix="L.rowids.max", target="table:Table.RowIDs.max", file="sandbox/grist/table.py",
    params=dict(self=RowIDs()), requires=req,
    loops={0: LoopSpec("L.rowids.max.loop", decreases="last",
                       invariants={"scanned": "0 <= last < size() and "
                                              "forall(r, last < r < size(), not member(r))"})},
    ensures={"is_maximum": "result >= 0 and forall(r, member(r), r <= result)",
             "attained_or_zero": "member(result) or (result == 0 and forall(r, True, not member(r)))"},
    defs=rdefs, notes="while loop with a discharged decreases clause (termination proved)"))
  return out


CONTRACTS = build()
