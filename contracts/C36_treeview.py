"""C36 — treeview.fix_indents: page-tree indentation fixes always yield a valid tree.

Postconditions are taken from the property statement and phrased over what a caller sees: the
list `items` (in page order), the set of removed ids and the returned (id, level) pairs.
`islevel(k, l)` says "after applying the returned fixes page k is at level l"."""
from vlib.pysym import *

Item = Obj("Item", id=Int, indentation=Int)


def _native(args):
  from vlib.pysym.extract import import_module
  return import_module("treeview").fix_indents(args["items"], args["deleted_ids"])


_defs = {
  "kept": "lambda k: items[k].id not in deleted_ids",
  "changed": "lambda k: exists(j, 0 <= j < len(result), result[j][0] == items[k].id)",
  "islevel": "lambda k, l: exists(j, 0 <= j < len(result), result[j][0] == items[k].id and "
             "result[j][1] == l) or (not changed(k) and l == items[k].indentation)",
}

_loop = LoopSpec(
  "C36.loop", index="idx",
  locals=dict(adjustments=Seq(Tup(Int, Int))),
  # ghost state: cap[k] level limit page k met; fin[k] level computed for page k; last = last kept
  # index so far (-1: none); prev[k] = previous kept index of kept page k; pos[k] / src[j] link
  # pages and entries of `adjustments`.
  ghost=dict(cap=(MapOf(Int, Int), None), fin=(MapOf(Int, Int), None),
             prev=(MapOf(Int, Int), None), last=(Int, "-1"),
             pos=(MapOf(Int, Int), None), src=(MapOf(Int, Int), None)),
  ghost_pre="cap[idx] = max_next_indent",
  ghost_step="""
    fin[idx] = indent
    if not is_deleted:
      prev[idx] = last
      last = idx
      if indent != item.indentation:
        pos[idx] = len(adjustments) - 1
        src[len(adjustments) - 1] = idx
  """,
  invariants={
    "recurrence": "forall(k, 0 <= k < idx, fin[k] == min(cap[k], items[k].indentation) and "
                  "cap[k] == (0 if k == 0 else fin[k-1] + (0 if items[k-1].id in deleted_ids else 1)))",
    "next_cap": "max_next_indent == (0 if idx == 0 else fin[idx-1] + "
                "(0 if items[idx-1].id in deleted_ids else 1))",
    "cap_bound": "max_next_indent >= 0 and (max_next_indent == 0 if last < 0 else "
                 "max_next_indent <= fin[last] + 1)",
    "last": "-1 <= last < idx and (last < 0 or items[last].id not in deleted_ids) and "
            "forall(m, last < m < idx, items[m].id in deleted_ids)",
    "kept_levels": "forall(k, 0 <= k < idx and items[k].id not in deleted_ids, "
                   "0 <= fin[k] <= items[k].indentation and -1 <= prev[k] < k and "
                   "(prev[k] < 0 or items[prev[k]].id not in deleted_ids) and "
                   "(fin[k] == 0 if prev[k] < 0 else fin[k] <= fin[prev[k]] + 1))",
    "between": "forall(k, m, 0 <= k < idx and items[k].id not in deleted_ids and prev[k] < m < k,"
               " items[m].id in deleted_ids)",
    "adj_src": "forall(j, 0 <= j < len(adjustments), 0 <= src[j] < idx and "
               "items[src[j]].id not in deleted_ids and adjustments[j][0] == items[src[j]].id and "
               "adjustments[j][1] == fin[src[j]] and fin[src[j]] != items[src[j]].indentation)",
    "adj_pos": "forall(k, 0 <= k < idx and items[k].id not in deleted_ids and "
               "fin[k] != items[k].indentation, 0 <= pos[k] < len(adjustments) and src[pos[k]] == k)",
    "adj_order": "forall(i, j, 0 <= i < j < len(adjustments), src[i] < src[j])",
  },
)

fix_indents = Contract(
  prefix="C36", target="treeview:fix_indents", file="sandbox/grist/treeview.py",
  params=dict(items=Seq(Item), deleted_ids=SetOf(Int)),
  requires={
    "nonneg": "forall(k, 0 <= k < len(items), items[k].indentation >= 0)",
    "ids_distinct": "forall(j, k, 0 <= j < k < len(items), items[j].id != items[k].id)",
  },
  loops={0: _loop},
  ensures={
    # -- statement: "leaves the remaining pages as a valid tree"
    "tree_valid_first": "forall(k, l, 0 <= k < len(items) and kept(k) and "
                        "forall(m, 0 <= m < k, not kept(m)) and islevel(k, l), l == 0)",
    "tree_valid_step": "forall(p, k, lp, lk, 0 <= p < k < len(items) and kept(p) and kept(k) and "
                       "forall(m, p < m < k, not kept(m)) and islevel(p, lp) and islevel(k, lk), "
                       "0 <= lk <= lp + 1)",
    # -- statement: "never makes a page deeper than it was"
    "never_deeper": "forall(j, k, 0 <= j < len(result) and 0 <= k < len(items) and "
                    "result[j][0] == items[k].id, result[j][1] < items[k].indentation)",
    # -- statement: "changes only pages that would otherwise violate this"
    "only_kept_adjusted": "forall(j, 0 <= j < len(result), result[j][0] not in deleted_ids and "
                          "exists(k, 0 <= k < len(items), items[k].id == result[j][0]))",
    "one_fix_per_page": "forall(i, j, 0 <= i < j < len(result), result[i][0] != result[j][0])",
    "first_unchanged_if_zero": "len(items) > 0 and kept(0) and items[0].indentation == 0 "
                               "implies not changed(0)" if False else
                               "implies(len(items) > 0 and kept(0), "
                               "changed(0) == (items[0].indentation > 0))",
    "minimal_change_adjacent": "forall(k, l, 1 <= k < len(items) and kept(k) and kept(k-1) and "
                               "islevel(k-1, l), changed(k) == (items[k].indentation > l + 1))",
  },
  defs=_defs, native=_native,
)

CONTRACTS = [fix_indents]


def _enum(tier, seed):
  """All page lists of length <= L with levels 0..3 (ids 1..n in a fixed shuffled order) and all
  removal subsets: exhaustive up to the stated bound."""
  import itertools, types
  L = 4 if tier == "quick" else 6
  for n in range(L + 1):
    ids = [((i * 7) % 11) + 1 for i in range(n)]
    for levels in itertools.product(range(4), repeat=n):
      for mask in range(1 << n):
        items = [types.SimpleNamespace(id=ids[i], indentation=levels[i]) for i in range(n)]
        yield dict(items=items, deleted_ids={ids[i] for i in range(n) if mask >> i & 1})

fix_indents.enum = _enum
fix_indents.nontrivial = lambda args, result: bool(result)
