"""C41 — engine.Engine.fetch_table with a query: exactly the matching rows, in row-id order, and
only the requested kinds of columns.

Environment model (assumed contracts, all listed in the evidence):
  * `self.tables[table_id]` is a table whose `row_ids` iterate as a strictly increasing list of ints
    (the RowIDs view lemma, C27) and whose `all_columns` is a dict: distinct col ids;
  * `col.raw_get(r)` is a pure read `cell(col, r)`; `is_formula()/is_private()/col_id` are pure;
  * a query value list `vl` is only used through `set(vl)` and `x in ...`:
      set(vl) succeeds iff every member is hashable (else TypeError), and for hashable x
      `x in set(vl)` == `x in vl`;  `x in <set>` raises TypeError iff x is unhashable;
      `x in <list>` never raises;  an unhashable value is never equal to a hashable one
      (true of the builtin cell types) - so it is not `in` a list of hashables.
The number of queried columns, of rows and of values is symbolic (no bound)."""
import z3
from vlib.pysym import *
from vlib.pysym.values import opaque_sort, Shape
from vlib.pysym.interp import Model, SelfModel, PyExc

Col, ColId, Bag, Cell = Opaque("Col"), Opaque("ColId"), Opaque("Bag"), Opaque("Cell")


def U(ip):
  S = opaque_sort
  return dict(
    cell=ip.uf("cell", [S("Col"), z3.IntSort()], S("Cell")),
    member=ip.uf("member", [S("Bag"), S("Cell")], z3.BoolSort()),      # x in bag (as a list)
    is_set=ip.uf("is_set", [S("Bag")], z3.BoolSort()),
    all_hashable=ip.uf("all_hashable", [S("Bag")], z3.BoolSort()),
    hashable=ip.uf("hashable", [S("Cell")], z3.BoolSort()),
    toset=ip.uf("toset", [S("Bag")], S("Bag")),
    colof=ip.uf("colof", [S("ColId")], S("Col")),
    colid=ip.uf("colid", [S("Col")], S("ColId")),
    is_formula=ip.uf("is_formula", [S("Col")], z3.BoolSort()),
    is_private=ip.uf("is_private", [S("Col")], z3.BoolSort()),
    is_id=ip.uf("is_id", [S("ColId")], z3.BoolSort()),
    is_virtual=ip.uf("is_virtual", [S("ColId")], z3.BoolSort()),
  )


def _axioms(ip):
  u = U(ip)
  b = z3.Const("ax_b", opaque_sort("Bag")); x = z3.Const("ax_x", opaque_sort("Cell"))
  return [
    # set(vl): a set with the same hashable members
    z3.ForAll([b], u["is_set"](u["toset"](b))),
    z3.ForAll([b, x], z3.Implies(u["hashable"](x),
                                 u["member"](u["toset"](b), x) == u["member"](b, x))),
    # an unhashable value is not equal to any member of an all-hashable list
    z3.ForAll([b, x], z3.Implies(z3.And(u["all_hashable"](b), z3.Not(u["hashable"](x))),
                                 z3.Not(u["member"](b, x)))),
  ]


def h_in(ip, bag, x, node):
  """`x in bag`: TypeError iff bag is a set and x is unhashable."""
  u = U(ip)
  if not ip.spec:
    if ip.ctx.decide(z3.And(u["is_set"](bag.t), z3.Not(u["hashable"](x.t)))):
      raise PyExc(TypeError, ("unhashable type",), getattr(node, "lineno", None))
  return u["member"](bag.t, x.t)


def h_set(ip, bag):
  u = U(ip)
  if not ip.spec:
    if not ip.ctx.decide(u["all_hashable"](bag.t)):
      raise PyExc(TypeError, ("unhashable type",), None)
  return SOpq(u["toset"](bag.t), "Bag")


def _hooks(c):
  c.hooks[("in", "Bag")] = h_in
  c.hooks[("set", "Bag")] = h_set
  c.hooks[("method", "Col", "raw_get")] = lambda ip, col, r: SOpq(U(ip)["cell"](col.t, ip.int_term(r)), "Cell")
  c.hooks[("method", "Col", "is_formula")] = lambda ip, col: SBool(U(ip)["is_formula"](col.t))
  c.hooks[("method", "Col", "is_private")] = lambda ip, col: SBool(U(ip)["is_private"](col.t))
  c.hooks[("attr", "Col", "col_id")] = lambda ip, col: SOpq(U(ip)["colid"](col.t), "ColId")
  c.hooks[("method", "ColId", "startswith")] = lambda ip, cid, prefix: (
      SBool(U(ip)["is_virtual"](cid.t)) if prefix == "#" else _unsup(prefix))
  c.opq_eq_const["ColId"] = lambda ip, cid, const: (
      U(ip)["is_id"](cid.t) if const == "id" else _unsup(const))


def _unsup(x):
  raise Unsupported("unmodelled constant %r" % (x,))


def _table_shape():
  AllCols = Obj("dict", consts={"values": None}, _vals=Seq(Col))
  def values_model(ip):      # bound below, needs the instance
    raise Unsupported("unbound")
  return AllCols


class _Items(object):
  pass


def _mk_params(with_query):
  # table.all_columns.values() and query.items() return the modelled sequences
  cols_shape = Obj("ColumnsDict", _vals=Seq(Col), consts={
      "values": SelfModel("dict.values()", lambda ip, d: d.fields["_vals"])})
  table = Obj("Table", row_ids=Seq(Int), all_columns=cols_shape,
              consts={"get_column": Model("table.get_column(col_id)",
                                          lambda ip, cid: SOpq(U(ip)["colof"](cid.t), "Col"))})
  tables = Obj("TablesDict", _table=table, consts={
      "__getitem__": SelfModel("self.tables[table_id]", lambda ip, d, k: d.fields["_table"])})
  params = dict(self=Obj("Engine", tables=tables),
                table_id=Opaque("TableId"), formulas=Bool, private=Bool)
  if with_query:
    params["query"] = Obj("QueryDict", _items=Seq(Tup(ColId, Bag)), consts={
        "items": SelfModel("dict.items()", lambda ip, d: d.fields["_items"]),
        "__truth__": lambda ip, d: d.fields["_items"].length > 0})
  else:
    params["query"] = None
  return params


def _post_build(args_env):
  pass


_defs = {
  "T": "lambda: self.tables._table",
  "rows": "lambda: self.tables._table.row_ids",
  "cols": "lambda: self.tables._table.all_columns._vals",
  "nq": "lambda: len(query._items)",
  "qcol": "lambda q: colof(query._items[q][0])",
  # statement: the stored value of row r in queried column q is among the requested values
  "matches": "lambda q, r: member(query._items[q][1], cell(qcol(q), r))",
  "allmatch": "lambda r: forall(q, 0 <= q < nq(), matches(q, r))",
  "included": "lambda k: (formulas or not is_formula(cols()[k])) and "
              "(private or not is_private(cols()[k])) and not is_id(colid(cols()[k])) and "
              "not is_virtual(colid(cols()[k]))",
}
for _n in ("cell", "member", "is_set", "all_hashable", "hashable", "toset", "colof", "colid",
           "is_formula", "is_private", "is_id", "is_virtual"):
  def _mk(n):
    def f(ip, *a):
      r = U(ip)[n](*[x.t if isinstance(x, (SOpq, SInt, SBool)) else ip.int_term(x) for x in a])
      if r.sort() == z3.BoolSort(): return SBool(r)
      return SOpq(r, str(r.sort()))
    return f
  _defs[_n] = _mk(_n)

_defs_noquery = dict(_defs)
_defs_noquery.update({"nq": "lambda: 0", "matches": "lambda q, r: True", "allmatch": "lambda r: True"})

_requires = {
  "row_ids_increasing": "forall(i, j, 0 <= i < j < len(rows()), rows()[i] < rows()[j])",
  "col_ids_distinct": "forall(i, j, 0 <= i < j < len(cols()), colid(cols()[i]) != colid(cols()[j]))",
}
_requires_q = dict(_requires, query_values_are_lists="forall(q, 0 <= q < nq(), not is_set(query._items[q][1]))")

_loop_query = LoopSpec(
  "C41.query_loop", index="qi", locals=dict(query_cols=Seq(Tup(Col, Bag))),
  invariants={
    "built": "len(query_cols) == qi and forall(q, 0 <= q < qi, query_cols[q][0] == qcol(q) and "
             "((all_hashable(query._items[q][1]) and query_cols[q][1] == toset(query._items[q][1])) or "
             " (not all_hashable(query._items[q][1]) and query_cols[q][1] == query._items[q][1])))",
  })

_loop_rows = LoopSpec(
  "C41.row_loop", index="ri", locals=dict(row_ids=Seq(Int)),
  # ghost: ok[i] = row i matched; pos[i] = where row i went in row_ids; src[j] = index of the row
  # that produced entry j; len0 = len(row_ids) at the start of the iteration
  ghost=dict(ok=(MapOf(Int, Bool), None), pos=(MapOf(Int, Int), None),
             src=(MapOf(Int, Int), None), len0=(Int, "0")),
  ghost_pre="len0 = len(row_ids)",
  ghost_step="""
    ok[ri] = len(row_ids) > len0
    if len(row_ids) > len0:
      pos[ri] = len0
      src[len0] = ri
  """,
  invariants={
    "ok_def": "forall(i, 0 <= i < ri, ok[i] == allmatch(rows()[i]))",
    "kept": "forall(i, 0 <= i < ri and ok[i], 0 <= pos[i] < len(row_ids) and "
            "row_ids[pos[i]] == rows()[i])",
    "src": "forall(j, 0 <= j < len(row_ids), 0 <= src[j] < ri and ok[src[j]] and "
           "row_ids[j] == rows()[src[j]] and pos[src[j]] == j)",
    "order": "forall(i, j, 0 <= i < j < len(row_ids), src[i] < src[j])",
  })

_loop_inner = LoopSpec(
  "C41.match_loop", index="qj",
  invariants={"prefix_matches": "forall(q, 0 <= q < qj, matches(q, r))"})

_loop_cols = LoopSpec(
  "C41.column_loop", index="ci", locals=dict(column_values=MapOf(ColId, Seq(Cell))),
  invariants={
    "present": "forall(k, 0 <= k < ci, included(k) == (colid(cols()[k]) in column_values))",
    "absent_later": "forall(k, ci <= k < len(cols()), colid(cols()[k]) not in column_values)",
    "only_cols": "forall(key__ColId, key__ColId in column_values, "
                 "exists(k, 0 <= k < len(cols()), colid(cols()[k]) == key__ColId))",
    "values": "forall(k, 0 <= k < ci and included(k), "
              "len(column_values[colid(cols()[k])]) == len(row_ids) and "
              "forall(j, 0 <= j < len(row_ids), "
              "column_values[colid(cols()[k])][j] == cell(cols()[k], row_ids[j])))",
  })

_ensures = {
  # statement: "returns exactly the rows, in row id order, whose stored value in each queried
  # column is among that column's requested values"
  "rows_sound": "forall(j, 0 <= j < len(result.row_ids), exists(i, 0 <= i < len(rows()), "
                "rows()[i] == result.row_ids[j] and allmatch(rows()[i])))",
  "rows_complete": "forall(i, 0 <= i < len(rows()) and allmatch(rows()[i]), "
                   "exists(j, 0 <= j < len(result.row_ids), result.row_ids[j] == rows()[i]))",
  "rows_in_order": "forall(i, j, 0 <= i < j < len(result.row_ids), "
                   "result.row_ids[i] < result.row_ids[j])",
  # statement: "and only the requested kinds of columns (formulas/private flags)"
  "columns_by_flags": "forall(k, 0 <= k < len(cols()), "
                      "included(k) == (colid(cols()[k]) in result.columns))",
  "no_other_columns": "forall(key__ColId, key__ColId in result.columns, "
                      "exists(k, 0 <= k < len(cols()), colid(cols()[k]) == key__ColId))",
  "values_aligned": "forall(k, 0 <= k < len(cols()) and included(k), "
                    "len(result.columns[colid(cols()[k])]) == len(result.row_ids) and "
                    "forall(j, 0 <= j < len(result.row_ids), result.columns[colid(cols()[k])][j] == "
                    "cell(cols()[k], result.row_ids[j])))",
  "table_id_kept": "result.table_id == table_id",
}


def _wire(params):
  """Adds the dict-like behaviour of the modelled containers (consts need the instance, so they
  are Models reading the instance's own field)."""
  eng = params["self"]
  tables = eng.fields["tables"]
  table = tables.fields["_table"]
  # self.tables[table_id]  -> the table
  tables.consts["__getitem_model__"] = True
  cols = table.fields["all_columns"]
  return params


class _DictModel(Model):
  pass


def _install_container_models(c):
  # ObjVal subscripts/methods: handled through the real-class lookup; here the containers have no
  # real class, so we give them Models as const fields that close over nothing and read `self`.
  pass


def build():
  out = []
  for with_query in (True, False):
    params = _mk_params(with_query)
    # container behaviour
    tables_shape = params["self"].fields["tables"]
    table_shape = tables_shape.fields["_table"]
    cols_shape = table_shape.fields["all_columns"]
    c = Contract(
      prefix="C41" if with_query else "C41.noquery", target="engine:Engine.fetch_table",
      file="sandbox/grist/engine.py", params=params,
      requires=_requires_q if with_query else _requires,
      ensures=_ensures, defs=_defs if with_query else _defs_noquery,
      loops={0: _loop_query, 1: _loop_rows, 2: _loop_inner, 3: _loop_cols},
      raises={},
      notes="query is %s" % ("a dict with a symbolic number of (col id, value list) items"
                             if with_query else "None"))
    c.raw_axioms = _axioms
    _hooks(c)
    out.append(c)
  return out


CONTRACTS = build()
