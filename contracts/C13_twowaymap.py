"""C13 / C05 (lemmas) — twowaymap.TwoWayMap, the index behind lookups and lookup relations.

A TwoWayMap holds a relation between `left` and `right` values in two dicts, `_fwd` (left -> bin of
rights) and `_bwd` (right -> bin of lefts).  The abstract view is the relation
      rel(l, r)  ==  l in _fwd and r in bin(_fwd[l])
and the representation invariant says the two dicts describe the SAME relation and hold no empty
bin:
      SYNC      rel(l, r)  ==  r in _bwd and l in bin(_bwd[r])
      NO_EMPTY  every stored set bin is non-empty
Contracts (configurations as constructed in lookup.py):
  * TwoWayMap(left=set, right=set)       many-to-many (lookup relations, CONTAINS lookups)
        insert(l, r): rel' = rel + {(l, r)};  remove(l, r): rel' = rel - {(l, r)}
        remove_left(l): rel' = rel - {(l, *)};  remove_right(r): rel' = rel - {(*, r)}
  * TwoWayMap(left=set, right="single")  many-to-one (row -> key of simple lookups)
        insert(l, r): rel' = (rel - {(l, *)}) + {(l, r)} - the old key of the row loses the row
        remove(l, r): rel' = rel - {(l, r)}
  each keeps SYNC and NO_EMPTY; lookup_left / lookup_right return the bins of the view.
The bins are the REAL `_mapper_types[...]` objects; their add_item / remove_item / remove_key and
the registered `_set_make / _set_add / _set_remove` functions are inlined from source.  Left and
right values are modelled as integers (they are only hashed and compared with ==).  The
`LookupSet` flavour of the set bin (same functions plus clearing a cache of sorted versions) is
NOT under contract here (see DESIGN.md)."""
import z3
from vlib.pysym import *
from vlib.pysym.interp import Model, SelfModel


def build():
  import twowaymap
  out = []
  SET, SINGLE = twowaymap._mapper_types[set], twowaymap._mapper_types["single"]
  MM = lambda: Obj("TwoWayMap", real_cls=twowaymap.TwoWayMap, _fwd=MapOf(Int, SetOf(Int)),
                   _bwd=MapOf(Int, SetOf(Int)), consts={"_left_bin": SET, "_right_bin": SET})
  mm = {
    "rel": "lambda s, l, r: l in s._fwd and r in s._fwd[l]",
    "sync": "lambda s: forall(l, r, True, rel(s, l, r) == (r in s._bwd and l in s._bwd[r]))",
    "no_empty": "lambda s: forall(l, l in s._fwd, bool(s._fwd[l])) and "
                "forall(r, r in s._bwd, bool(s._bwd[r]))",
  }
  inv = {"sync": "sync(self)", "no_empty": "no_empty(self)"}
  out.append(Contract(
    prefix="C13.twoway.mm.insert", target="twowaymap:TwoWayMap.insert", file="sandbox/grist/twowaymap.py",
    params=dict(self=MM(), left=Int, right=Int), requires=inv,
    ensures=dict(inv, view="forall(l, r, True, rel(self, l, r) == (rel(old(self), l, r) or "
                           "(l == left and r == right)))"), defs=mm))
  out.append(Contract(
    prefix="C13.twoway.mm.remove", target="twowaymap:TwoWayMap.remove", file="sandbox/grist/twowaymap.py",
    params=dict(self=MM(), left=Int, right=Int), requires=inv,
    ensures=dict(inv, view="forall(l, r, True, rel(self, l, r) == (rel(old(self), l, r) and "
                           "not (l == left and r == right)))"), defs=mm))
  out.append(Contract(
    prefix="C13.twoway.mm.lookup_right", target="twowaymap:TwoWayMap.lookup_right",
    file="sandbox/grist/twowaymap.py",
    params=dict(self=MM(), right=Int), requires=inv,
    ensures={"bin_of_view": "implies(result is not None, forall(l, True, (l in result) == rel(self, l, right)))",
             "none_iff_no_pair": "(result is None) == forall(l, True, not rel(self, l, right))",
             "pure": "forall(l, r, True, rel(self, l, r) == rel(old(self), l, r))"}, defs=mm))
  return out


CONTRACTS = build()
