"""C13 / C05 (lemmas) — twowaymap.TwoWayMap, the index behind lookups and lookup relations.

A TwoWayMap holds a relation between `left` and `right` values in two dicts, `_fwd` (left -> bin of
rights) and `_bwd` (right -> bin of lefts).  The abstract view is the relation
      rel(l, r)  ==  l in _fwd and r in bin(_fwd[l])
and the representation invariant says the two dicts describe the SAME relation and hold no empty
bin:
      SYNC      rel(l, r)  ==  r in _bwd and l in bin(_bwd[r])
      NO_EMPTY  every stored set bin is non-empty
Contracts (configurations as constructed in lookup.py):
  * TwoWayMap(left=set, right=set)       many-to-many (lookup relations, CONTAINS lookups)
        insert(l, r): rel' = rel + {(l, r)};  remove(l, r): rel' = rel - {(l, r)}
        remove_left(l): rel' = rel - {(l, *)};  remove_right(r): rel' = rel - {(*, r)}
  * TwoWayMap(left=set, right="single")  many-to-one (row -> key of simple lookups)
        insert(l, r): rel' = (rel - {(l, *)}) + {(l, r)} - the old key of the row loses the row
        remove(l, r): rel' = rel - {(l, r)}
  each keeps SYNC and NO_EMPTY; lookup_left / lookup_right return the bins of the view.
The bins are the REAL `_mapper_types[...]` objects; their add_item / remove_item / remove_key and
the registered `_set_make / _set_add / _set_remove` functions are inlined from source.  Left and
right values are modelled as integers (they are only hashed and compared with ==).  The
`LookupSet` flavour of the set bin (same functions plus clearing a cache of sorted versions) is
NOT under contract here (see DESIGN.md)."""
import z3
from vlib.pysym import *
from vlib.pysym.interp import Model, SelfModel


def build():
  import twowaymap
  out = []
  SET, SINGLE = twowaymap._mapper_types[set], twowaymap._mapper_types["single"]
  MM = lambda: Obj("TwoWayMap", real_cls=twowaymap.TwoWayMap, _fwd=MapOf(Int, SetOf(Int)),
                   _bwd=MapOf(Int, SetOf(Int)), consts={"_left_bin": SET, "_right_bin": SET})
  mm = {
    "rel": "lambda s, l, r: l in s._fwd and r in s._fwd[l]",
    "sync": "lambda s: forall(l, r, True, rel(s, l, r) == (r in s._bwd and l in s._bwd[r]))",
    "no_empty": "lambda s: forall(l, l in s._fwd, bool(s._fwd[l])) and "
                "forall(r, r in s._bwd, bool(s._bwd[r]))",
  }
  inv = {"sync": "sync(self)", "no_empty": "no_empty(self)"}
  out.append(Contract(
    prefix="C13.twoway.mm.insert", target="twowaymap:TwoWayMap.insert", file="sandbox/grist/twowaymap.py",
    params=dict(self=MM(), left=Int, right=Int), requires=inv,
    ensures=dict(inv, view="forall(l, r, True, rel(self, l, r) == (rel(old(self), l, r) or "
                           "(l == left and r == right)))"), defs=mm))
  out.append(Contract(
    prefix="C13.twoway.mm.remove", target="twowaymap:TwoWayMap.remove", file="sandbox/grist/twowaymap.py",
    params=dict(self=MM(), left=Int, right=Int), requires=inv,
    ensures=dict(inv, view="forall(l, r, True, rel(self, l, r) == (rel(old(self), l, r) and "
                           "not (l == left and r == right)))"), defs=mm))
  out.append(Contract(
    prefix="C13.twoway.mm.lookup_right", target="twowaymap:TwoWayMap.lookup_right",
    file="sandbox/grist/twowaymap.py",
    params=dict(self=MM(), right=Int), requires=inv,
    ensures={"bin_of_view": "implies(result is not None, forall(l, True, (l in result) == rel(self, l, right)))",
             "none_iff_no_pair": "(result is None) == forall(l, True, not rel(self, l, right))",
             "pure": "forall(l, r, True, rel(self, l, r) == rel(old(self), l, r))"}, defs=mm))
  back = "lambda s, l, r: r in s._bwd and l in s._bwd[r]"
  mm2 = dict(mm, back=back, seen="lambda r: r in __iterset__ and __position__[r] < idx")
  out.append(Contract(
    prefix="C13.twoway.mm.remove_left", target="twowaymap:TwoWayMap.remove_left",
    file="sandbox/grist/twowaymap.py",
    params=dict(self=MM(), left=Int), requires=inv,
    loops={0: LoopSpec("C13.twoway.mm.remove_left.loop", index="idx", locals=dict(self=MM()),
                       invariants={
                         "fwd_final": "forall(l, r, True, rel(self, l, r) == (rel(old(self), l, r) and l != left))",
                         "bwd_progress": "forall(l, r, True, back(self, l, r) == (rel(old(self), l, r) and "
                                         "not (l == left and seen(r))))",
                         "iterating_old_bin": "forall(i, 0 <= i < len(__iterated__), rel(old(self), left, __iterated__[i])) "
                                              "and forall(r, rel(old(self), left, r), exists(i, 0 <= i < len(__iterated__), __iterated__[i] == r))",
                         "no_empty": "no_empty(self)",
                       })},
    ensures=dict(inv, view="forall(l, r, True, rel(self, l, r) == (rel(old(self), l, r) and l != left))"),
    defs=mm2, notes="loop over the removed bin (a set): iteration order is the ghost sequence "
                    "__iterated__; `self` is havocked by the loop (both dicts), so the invariants "
                    "carry the whole state"))
  out.append(Contract(
    prefix="C13.twoway.mm.remove_right", target="twowaymap:TwoWayMap.remove_right",
    file="sandbox/grist/twowaymap.py",
    params=dict(self=MM(), right=Int), requires=inv,
    loops={0: LoopSpec("C13.twoway.mm.remove_right.loop", index="idx", locals=dict(self=MM()),
                       invariants={
                         "bwd_final": "forall(l, r, True, back(self, l, r) == (back(old(self), l, r) and r != right))",
                         "fwd_progress": "forall(l, r, True, rel(self, l, r) == (rel(old(self), l, r) and "
                                         "not (r == right and seen(l))))",
                         "iterating_old_bin": "forall(i, 0 <= i < len(__iterated__), rel(old(self), __iterated__[i], right)) "
                                              "and forall(l, rel(old(self), l, right), exists(i, 0 <= i < len(__iterated__), __iterated__[i] == l))",
                         "no_empty": "no_empty(self)",
                       })},
    ensures=dict(inv, view="forall(l, r, True, rel(self, l, r) == (rel(old(self), l, r) and r != right))"),
    defs=mm2))
  # ---- many-to-one: TwoWayMap(left=set, right="single"), the row -> key map of simple lookups -----
  MO = lambda: Obj("TwoWayMap", real_cls=twowaymap.TwoWayMap, _fwd=MapOf(Int, Int),
                   _bwd=MapOf(Int, SetOf(Int)), consts={"_left_bin": SET, "_right_bin": SINGLE})
  mo = {
    "rel": "lambda s, l, r: l in s._fwd and s._fwd[l] == r",
    "sync": "lambda s: forall(l, r, True, rel(s, l, r) == (r in s._bwd and l in s._bwd[r]))",
    "no_empty": "lambda s: forall(r, r in s._bwd, bool(s._bwd[r]))",
  }
  out.append(Contract(
    prefix="C13.twoway.single.insert", target="twowaymap:TwoWayMap.insert", file="sandbox/grist/twowaymap.py",
    params=dict(self=MO(), left=Int, right=Int), requires=inv,
    ensures=dict(inv, view="forall(l, r, True, rel(self, l, r) == ((l == left and r == right) or "
                           "(l != left and rel(old(self), l, r))))"), defs=mo,
    notes="the row's previous key loses the row (overwrite semantics of the 'single' bin)"))
  out.append(Contract(
    prefix="C13.twoway.single.remove", target="twowaymap:TwoWayMap.remove", file="sandbox/grist/twowaymap.py",
    params=dict(self=MO(), left=Int, right=Int), requires=inv,
    ensures=dict(inv, view="forall(l, r, True, rel(self, l, r) == (rel(old(self), l, r) and "
                           "not (l == left and r == right)))"), defs=mo))
  out.append(Contract(
    prefix="C13.twoway.single.lookup_left", target="twowaymap:TwoWayMap.lookup_left",
    file="sandbox/grist/twowaymap.py",
    params=dict(self=MO(), left=Int), requires=inv,
    ensures={"key_of_view": "implies(result is not None, rel(self, left, result))",
             "none_iff_unmapped": "(result is None) == forall(r, True, not rel(self, left, r))"}, defs=mo))
  # ---- lookup.SimpleLookupMapping on top of the many-to-one map --------------------------------
  import lookup
  SLM = lambda: Obj("SimpleLookupMapping", real_cls=lookup.SimpleLookupMapping, _row_key_map=MO(),
                    consts={"get_new_keys_iter": SelfModel(
                        "get_new_keys_iter(rec) -> [key of rec]  (the ghost parameter new_key)",
                        lambda ip, s, rec: [rec.fields["__key__"]])})
  Rec = lambda: Obj("Record", _row_id=Int, __key__=Int)
  lm = dict(mo, m="lambda s: s._row_key_map")
  linv = {"sync": "sync(m(self))", "no_empty": "no_empty(m(self))"}
  out.append(Contract(
    prefix="C13.lookupmap.update_record", target="lookup:SimpleLookupMapping.update_record",
    file="sandbox/grist/lookup.py",
    params=dict(self=SLM(), rec=Rec()), requires=linv,
    ensures=dict(linv,
      row_indexed_under_its_key="rel(m(self), rec._row_id, rec.__key__)",
      only_this_row_moves="forall(l, r, l != rec._row_id, rel(m(self), l, r) == rel(m(old(self)), l, r))",
      row_has_one_key="forall(r, rel(m(self), rec._row_id, r), r == rec.__key__)",
      affected_keys="forall(k, True, (k in result) == ((k == rec.__key__ or rel(m(old(self)), rec._row_id, k)) "
                    "and not rel(m(old(self)), rec._row_id, rec.__key__)))"),
    defs=lm,
    notes="keys are modelled as integers (hashable): the `except TypeError` path for an unhashable "
          "new key is outside this contract; get_new_keys_iter (reading the record's cells) is a stub "
          "returning the ghost key of the record"))
  out.append(Contract(
    prefix="C13.lookupmap.lookup_by_key", target="lookup:BaseLookupMapping.lookup_by_key",
    file="sandbox/grist/lookup.py",
    params=dict(self=SLM(), key=Int), requires=linv,
    ensures={"exactly_the_rows_with_that_key": "implies(result is not None, forall(l, True, (l in result) == rel(m(self), l, key)))",
             "none_iff_no_row": "(result is None) == forall(l, True, not rel(m(self), l, key))"},
    defs=lm))
  out.append(Contract(
    prefix="C13.lookupmap.remove_row_id", target="lookup:BaseLookupMapping.remove_row_id",
    file="sandbox/grist/lookup.py",
    params=dict(self=SLM(), row_id=Int), requires=dict(linv, mapped="row_id in m(self)._fwd"),
    loops={0: LoopSpec("C13.lookupmap.remove_row_id.loop", index="idx", locals=dict(self=SLM()),
      invariants=dict(linv,
        others_kept="forall(l, r, l != row_id, rel(m(self), l, r) == rel(m(old(self)), l, r))",
        progress="forall(r, True, rel(m(self), row_id, r) == (rel(m(old(self)), row_id, r) and "
                 "not (r in __iterset__ and __position__[r] < idx)))",
        iterating_the_old_keys="forall(i, 0 <= i < len(__iterated__), rel(m(old(self)), row_id, __iterated__[i])) and "
                               "forall(r, rel(m(old(self)), row_id, r), exists(i, 0 <= i < len(__iterated__), __iterated__[i] == r))"))},
    ensures=dict(linv,
      row_gone="forall(r, True, not rel(m(self), row_id, r))",
      others_kept="forall(l, r, l != row_id, rel(m(self), l, r) == rel(m(old(self)), l, r))"),
    defs=lm, notes="requires the row to be indexed (get_mapped_keys of an unmapped row yields {None})"))
  # ---- lookup.ContainsLookupMapping on top of the many-to-many map --------------------------------
  CLM = lambda: Obj("ContainsLookupMapping", real_cls=lookup.ContainsLookupMapping, _row_key_map=MM(),
                    consts={"get_new_keys_iter": SelfModel(
                        "get_new_keys_iter(rec) -> the keys of rec (the ghost field __keys__)",
                        lambda ip, s, rec: rec.fields["__keys__"])})
  RecK = lambda: Obj("Record", _row_id=Int, __keys__=SetOf(Int))
  cm = dict(mm, m="lambda s: s._row_key_map",
            seen="lambda k: k in __iterset__ and __position__[k] < idx")
  cinv = {"sync": "sync(m(self))", "no_empty": "no_empty(m(self))"}
  others = "forall(l, r, l != rec._row_id, rel(m(self), l, r) == rel(m(old(self)), l, r))"
  out.append(Contract(
    prefix="C13.containsmap.update_record", target="lookup:ContainsLookupMapping.update_record",
    file="sandbox/grist/lookup.py",
    params=dict(self=CLM(), rec=RecK()), requires=cinv,
    loops={
      0: LoopSpec("C13.containsmap.update_record.drop_old", index="idx", locals=dict(self=CLM()),
                  invariants=dict(cinv, others_kept=others,
                    dropped_so_far="forall(k, True, rel(m(self), rec._row_id, k) == (rel(m(old(self)), rec._row_id, k) "
                                   "and not (k not in rec.__keys__ and seen(k))))",
                    iterating_old_minus_new="forall(i, 0 <= i < len(__iterated__), rel(m(old(self)), rec._row_id, __iterated__[i]) "
                                            "and __iterated__[i] not in rec.__keys__) and "
                                            "forall(k, rel(m(old(self)), rec._row_id, k) and k not in rec.__keys__, "
                                            "exists(i, 0 <= i < len(__iterated__), __iterated__[i] == k))")),
      1: LoopSpec("C13.containsmap.update_record.add_new", index="idx", locals=dict(self=CLM()),
                  invariants=dict(cinv, others_kept=others,
                    added_so_far="forall(k, True, rel(m(self), rec._row_id, k) == ((rel(m(old(self)), rec._row_id, k) "
                                 "and k in rec.__keys__) or (k in rec.__keys__ and seen(k))))",
                    iterating_new_minus_old="forall(i, 0 <= i < len(__iterated__), __iterated__[i] in rec.__keys__ and "
                                            "not rel(m(old(self)), rec._row_id, __iterated__[i])) and "
                                            "forall(k, k in rec.__keys__ and not rel(m(old(self)), rec._row_id, k), "
                                            "exists(i, 0 <= i < len(__iterated__), __iterated__[i] == k))")),
    },
    ensures=dict(cinv, others_kept=others,
      row_indexed_under_exactly_its_keys="forall(k, True, rel(m(self), rec._row_id, k) == (k in rec.__keys__))",
      affected_keys="forall(k, True, (k in result) == ((k in rec.__keys__) != rel(m(old(self)), rec._row_id, k)))"),
    defs=cm,
    notes="CONTAINS lookups: a row is indexed under every key of its list cell; get_new_keys_iter is a "
          "stub returning the record's ghost key set; thorough tier only (some obligations need "
          "10-25 s of solver time on a loaded machine)"))
  out[-1].only_tier = "thorough"
  return out


CONTRACTS = build()


# ---- native runners: the REAL TwoWayMap with the model's two dicts installed -------------------
def _real_map(view, single):
  import twowaymap
  m = twowaymap.TwoWayMap(left=set, right="single" if single else set)
  m._fwd = {k: (v if single else set(v)) for k, v in view._fwd.items()}
  m._bwd = {k: set(v) for k, v in view._bwd.items()}
  return m


def _map_view(m, single):
  import types
  return types.SimpleNamespace(_fwd={k: (v if single else set(v)) for k, v in m._fwd.items()},
                               _bwd={k: set(v) for k, v in m._bwd.items()})


def _n_map(method, single):
  def run(args):
    m = _real_map(args["self"], single)
    res = getattr(m, method)(*[args[k] for k in args if k != "self"])
    if isinstance(res, set): res = set(res)
    return NativeOutcome(res, {"self": _map_view(m, single)})
  return run


for _c in CONTRACTS:
  if ".twoway." in _c.prefix:
    _c.native = _n_map(_c.prefix.split(".")[-1], ".single." in _c.prefix)
