"""C10 / C05 (lemmas) — the reverse index of a reference column.

`relation.ReferenceRelation.inverse_map` maps a target row to the set of referring rows.  Its
abstract view is the relation
      refs(r, t)  ==  t in inverse_map and r in inverse_map[t]
and the contracts below state every operation against that view, over the WHOLE view (a
postcondition silent about the other pairs would let a change that corrupts them verify):

  add_reference(r, t)      refs' == refs + {(r, t)}
  remove_reference(r, t)   requires t in inverse_map (KeyError otherwise: checked at the call
                           sites below), refs' == refs - {(r, t)}
  clear()                  refs' == {}
  get_affected_rows(rows)  == { r : exists t in rows with refs(r, t) }   (rows is not ALL_ROWS)

and `column.ReferenceColumn.set` / `BaseReferenceColumn._update_references` keep the structure
invariant that ties the index to the column's data (the store is the total map of L_store.py):

  INDEXED :  for every row r >= 0 with a right-typed, truthy value v = data[r]:  refs(r, v)
  EXACT   :  refs(r, t)  implies  r >= 0 and data[r] is right-typed and data[r] == t

so that after any number of writes get_affected_rows(targets) is exactly the set of rows whose
cell points into `targets` - which is what RemoveRecord's clean-up of references (C10) and the
invalidation of dependents through a reference (C05) read.

A stored cell is modelled as Int | None: None stands for any value of the wrong type (alt-text);
`type_obj.is_right_type(v)` is `v is not None` (stub, listed as an assumption)."""
import z3
from vlib.pysym import *
from vlib.pysym.interp import Model, SelfModel


def build():
  import column, relation
  out = []
  Rel = lambda: Obj("ReferenceRelation", real_cls=relation.ReferenceRelation,
                    inverse_map=MapOf(Int, SetOf(Int)))
  view = {"refs": "lambda s, r, t: t in s.inverse_map and r in s.inverse_map[t]"}
  out.append(Contract(
    prefix="C10.rel.add_reference", target="relation:ReferenceRelation.add_reference",
    file="sandbox/grist/relation.py",
    params=dict(self=Rel(), referring_row_id=Int, target_row_id=Int),
    ensures={
      "pair_added": "refs(self, referring_row_id, target_row_id)",
      "view_is_old_plus_pair": "forall(r, t, True, refs(self, r, t) == (refs(old(self), r, t) or "
                               "(r == referring_row_id and t == target_row_id)))",
    }, defs=view))
  out.append(Contract(
    prefix="C10.rel.remove_reference", target="relation:ReferenceRelation.remove_reference",
    file="sandbox/grist/relation.py",
    params=dict(self=Rel(), referring_row_id=Int, target_row_id=Int),
    requires={"target_indexed": "target_row_id in self.inverse_map"},
    ensures={
      "pair_removed": "not refs(self, referring_row_id, target_row_id)",
      "view_is_old_minus_pair": "forall(r, t, True, refs(self, r, t) == (refs(old(self), r, t) and "
                                "not (r == referring_row_id and t == target_row_id)))",
    }, defs=view))
  out.append(Contract(
    prefix="C10.rel.clear", target="relation:ReferenceRelation.clear",
    file="sandbox/grist/relation.py",
    params=dict(self=Rel()),
    ensures={"view_empty": "forall(r, t, True, not refs(self, r, t))"}, defs=view))
  for kind, shape, member in (("seq", Seq(Int), "exists(i, 0 <= i < len(input_rows), refs(self, r, input_rows[i]))"),):
    out.append(Contract(
      prefix="C10.rel.get_affected_rows", target="relation:ReferenceRelation.get_affected_rows",
      file="sandbox/grist/relation.py",
      params=dict(self=Rel(), input_rows=shape),
      loops={0: LoopSpec("C10.rel.get_affected_rows.loop", index="idx",
                         locals=dict(affected_rows=SetOf(Int)),
                         invariants={
                           "only_referring_rows": "forall(r, r in affected_rows, exists(i, 0 <= i < idx, "
                                                  "refs(self, r, input_rows[i])))",
                           "every_referring_row": "forall(i, r, 0 <= i < idx and refs(self, r, input_rows[i]), "
                                                  "r in affected_rows)",
                           "index_untouched": "forall(r, t, True, refs(self, r, t) == refs(old(self), r, t))",
                         })},
      ensures={
        "only_referring_rows": "forall(r, r in result, %s)" % member,
        "every_referring_row": "forall(i, r, 0 <= i < len(input_rows) and refs(self, r, input_rows[i]), "
                               "r in result)",
        "index_untouched": "forall(r, t, True, refs(self, r, t) == refs(old(self), r, t))",
      }, defs=view,
      notes="input_rows is a list/tuple of target rows (not ALL_ROWS, which is returned as is)"))
  out.append(Contract(
    prefix="C10.rel.get_affected_rows_of_set", target="relation:ReferenceRelation.get_affected_rows",
    file="sandbox/grist/relation.py",
    params=dict(self=Rel(), input_rows=SetOf(Int)), returns=SetOf(Int), modular=True,
    loops={0: LoopSpec("C10.rel.get_affected_rows_of_set.loop", index="idx",
                       locals=dict(affected_rows=SetOf(Int)),
                       invariants={
                         "only_referring_rows": "forall(r, r in affected_rows, exists(i, 0 <= i < idx, "
                                                "refs(self, r, __iterated__[i])))",
                         "every_referring_row": "forall(i, r, 0 <= i < idx and refs(self, r, __iterated__[i]), "
                                                "r in affected_rows)",
                       })},
    ensures={
      "only_referring_rows": "forall(r, r in result, exists(t, t in input_rows, refs(self, r, t)))",
      "every_referring_row": "forall(r, t, t in input_rows and refs(self, r, t), r in result)",
      "index_untouched": "forall(r, t, True, refs(self, r, t) == refs(old(self), r, t))",
    }, defs=view,
    notes="input_rows is a set of target rows (the call from doBulkRemoveRecord); the iteration "
          "order is the ghost sequence __iterated__"))
  # ---- the column side: data and index stay inverse of each other ------------------------------
  RefType = lambda: Obj("RefType", consts={
    "default": 0,
    "is_right_type": Model("Reference.is_right_type(v): v is an int (modelled: v is not None)",
                           lambda ip, v: ip.wrap_bool(z3.Not(ip._bt(ip.eq(v, None)))))})
  Col = lambda: Obj("ReferenceColumn", real_cls=column.ReferenceColumn, _data=Seq(Opt(Int)),
                    type_obj=RefType(), _relation=Rel())
  cview = dict(view)
  cview.update({
    "typed": "lambda c, k: ite(0 <= k < len(c._data) and c._data[k] is not None, c._data[k], 0)",
    "indexed": "lambda c: forall(k, k >= 0 and typed(c, k) != 0, refs(c._relation, k, typed(c, k)))",
    "exact": "lambda c: forall(r, t, refs(c._relation, r, t), r >= 0 and t != 0 and typed(c, r) == t)",
  })
  out.append(Contract(
    prefix="C10.refcol.set", target="column:BaseReferenceColumn.set", file="sandbox/grist/column.py",
    params=dict(self=Col(), row_id=Int, value=Opt(Int)),
    requires={"nonneg_row": "row_id >= 0", "indexed": "indexed(self)", "exact": "exact(self)"},
    ensures={
      "cell_written": "row_id < len(self._data) and self._data[row_id] == value",
      "other_cells_kept": "forall(k, 0 <= k < len(old(self)._data) and k != row_id, "
                          "self._data[k] == old(self)._data[k])",
      "indexed": "indexed(self)",
      "exact": "exact(self)",
    }, defs=cview,
    notes="runs the real BaseReferenceColumn.set -> safe_get / raw_get / BaseColumn.set / growto / "
          "ReferenceColumn._clean_up_value / _value_iterable / _update_references -> "
          "ReferenceRelation.add_reference / remove_reference, all inlined from source"))
  out.append(Contract(
    prefix="C10.refcol.updates_for_removed", file="sandbox/grist/column.py",
    target="column:BaseReferenceColumn.get_updates_for_removed_target_rows",
    params=dict(self=Col(), target_row_ids=SetOf(Int)),
    requires={"indexed": "indexed(self)", "exact": "exact(self)"},
    ensures={
      "every_pointing_row_updated": "forall(k, k >= 0 and typed(self, k) != 0 and typed(self, k) in target_row_ids, "
                                    "exists(j, 0 <= j < len(result), result[j][0] == k))",
      "only_pointing_rows_updated": "forall(j, 0 <= j < len(result), result[j][0] >= 0 and "
                                    "typed(self, result[j][0]) in target_row_ids)",
      "new_value_is_no_reference": "forall(j, 0 <= j < len(result), result[j][1] == 0)",
      "rows_increasing": "forall(i, j, 0 <= i < j < len(result), result[i][0] < result[j][0])",
    }, defs=cview,
    notes="the call to ReferenceRelation.get_affected_rows is checked against that method's "
          "contract (modular), not its body; sorted(set) is an assumed contract"))
  # ---- reference LIST columns: a cell is None or a list of row ids -------------------------------
  ListType = lambda: Obj("RefListType", consts={
    "default": None,
    "is_right_type": Model("ReferenceList.is_right_type(v): None or a list of ints (the only shapes "
                           "modelled; an alt-text cell is read as None)", lambda ip, v: True)})
  LCell = Opt(Seq(Int))
  ColL = lambda: Obj("ReferenceListColumn", real_cls=column.ReferenceListColumn, _data=Seq(LCell),
                     type_obj=ListType(), _relation=Rel())
  def items(ip, c, k):
    """The list of references stored in cell k, as a sequence: empty for None / out of range."""
    data = c.fields["_data"]
    kk = ip.int_term(k)
    cell = data.at(kk)                 # SOpt(SSeq)
    valid = z3.And(kk >= 0, kk < data.length, z3.Not(cell.isnone))
    inner = cell.val
    return SSeq(inner.elem, inner.arrs, z3.If(valid, inner.length, z3.IntVal(0)), inner.kind)
  def aslist(ip, v):
    """A cell value as a sequence: the list itself, empty for None."""
    if isinstance(v, SOpt):
      inner = v.val
      return SSeq(inner.elem, inner.arrs, z3.If(v.isnone, z3.IntVal(0), inner.length), inner.kind)
    if v is None: return Seq(Int).build(Seq(Int).leaves([]))
    return v
  lview = dict(view, items=items, aslist=aslist,
    refs0="lambda IM, r, t: t in IM and r in IM[t]",
    indexedL="lambda c: forall(k, i, k >= 0 and 0 <= i < len(items(c, k)), refs(c._relation, k, items(c, k)[i]))",
    exactL="lambda c: forall(r, t, refs(c._relation, r, t), r >= 0 and "
           "exists(i, 0 <= i < len(items(c, r)), items(c, r)[i] == t))")
  same_data = ("len(self._data) == len(D) and forall(k, 0 <= k < len(D), len(items(self, k)) == len(itemsD(k)) and "
               "forall(i, 0 <= i < len(itemsD(k)), items(self, k)[i] == itemsD(k)[i]))")
  # NOT registered (kept for the record, DESIGN.md 14.2): with these invariants every loop
  # obligation is discharged but the final `indexed` / `exact` postconditions of three paths stay
  # `unknown` after 30 s (quantifier alternation over cell items across two havocked loops), so the
  # RefList flavour of the data/index invariant is not claimed.
  experimental = []
  experimental.append(Contract(
    prefix="C10.reflistcol.set", target="column:BaseReferenceColumn.set", file="sandbox/grist/column.py",
    params=dict(self=ColL(), row_id=Int, value=LCell),
    requires={"nonneg_row": "row_id >= 0", "indexed": "indexedL(self)", "exact": "exactL(self)"},
    loops={
      "BaseReferenceColumn._update_references#0": LoopSpec(
        "C10.reflistcol.set.remove_old", index="idx", locals=dict(self=ColL()),
        ghost=dict(IM0=(MapOf(Int, SetOf(Int)), "self._relation.inverse_map"), D=(Seq(LCell), "self._data"),
                   L=(Seq(Int), "aslist(old_value)")),
        invariants={
          "data_fixed": "len(self._data) == len(D) and forall(k, 0 <= k < len(D), self._data[k] == D[k])",
          "keys_stay": "forall(t, t in IM0, t in self._relation.inverse_map)",
          "removed_so_far": "forall(r, t, True, refs(self._relation, r, t) == (refs0(IM0, r, t) and "
                            "not (r == row_id and exists(j, 0 <= j < idx, L[j] == t))))",
          "L_is_the_old_cell": "len(L) == len(items(old(self), row_id)) and "
                               "forall(j, 0 <= j < len(L), L[j] == items(old(self), row_id)[j])",
          "index_was_the_entry_index": "forall(r, t, True, refs0(IM0, r, t) == refs(old(self)._relation, r, t))",
        }),
      "BaseReferenceColumn._update_references#1": LoopSpec(
        "C10.reflistcol.set.add_new", index="idx", locals=dict(self=ColL()),
        ghost=dict(IM1=(MapOf(Int, SetOf(Int)), "self._relation.inverse_map"), D=(Seq(LCell), "self._data"),
                   L=(Seq(Int), "aslist(new_value)")),
        invariants={
          "data_fixed": "len(self._data) == len(D) and forall(k, 0 <= k < len(D), self._data[k] == D[k])",
          "added_so_far": "forall(r, t, True, refs(self._relation, r, t) == (refs0(IM1, r, t) or "
                          "(r == row_id and exists(j, 0 <= j < idx, L[j] == t))))",
          "L_is_the_new_cell": "len(L) == len(items(self, row_id)) and "
                               "forall(j, 0 <= j < len(L), L[j] == items(self, row_id)[j])",
          "other_rows_as_at_entry": "forall(r, t, r != row_id, refs0(IM1, r, t) == refs(old(self)._relation, r, t))",
          "row_had_been_cleared": "forall(t, True, not refs0(IM1, row_id, t))",
        }),
    },
    ensures={
      "cell_written": "row_id < len(self._data) and self._data[row_id] == value",
      "other_cells_kept": "forall(k, 0 <= k < len(old(self)._data) and k != row_id, "
                          "self._data[k] == old(self)._data[k])",
      "indexed_row": "forall(i, 0 <= i < len(items(self, row_id)), refs(self._relation, row_id, items(self, row_id)[i]))",
      "indexed_others": "forall(k, i, k >= 0 and k != row_id and 0 <= i < len(items(self, k)), refs(self._relation, k, items(self, k)[i]))",
      "exact_row": "forall(t, refs(self._relation, row_id, t), exists(i, 0 <= i < len(items(self, row_id)), items(self, row_id)[i] == t))",
      "exact_others": "forall(r, t, r != row_id and refs(self._relation, r, t), r >= 0 and "
                      "exists(i, 0 <= i < len(items(self, r)), items(self, r)[i] == t))",
    }, defs=lview,
    notes="RefList flavour of BaseReferenceColumn.set: two loops of the inlined _update_references "
          "(remove the old list's references, add the new list's), each with `self` havocked and "
          "the index described against a snapshot taken at loop entry"))
  import os
  if os.environ.get("PYSYM_EXPERIMENTAL"): out.extend(experimental)
  return out


CONTRACTS = build()


# ---- native runners: the REAL methods on a real ReferenceRelation built from the model's view ----
def _real_rel(view):
  import relation
  r = relation.ReferenceRelation("Referring", "Target", "ref")
  r.inverse_map = {t: set(rows) for t, rows in view.inverse_map.items()}
  return r


def _rel_view(r):
  import types
  return types.SimpleNamespace(inverse_map={t: set(rows) for t, rows in r.inverse_map.items()})


def _n_rel(method):
  def run(args):
    r = _real_rel(args["self"])
    res = getattr(r, method)(*[args[k] for k in args if k != "self"])
    return NativeOutcome(res, {"self": _rel_view(r)})
  return run


for _c in CONTRACTS:
  if _c.prefix.startswith("C10.rel."):
    _c.native = _n_rel(_c.prefix.split(".")[-1])


def _real_col(view):
  """A real ReferenceColumn (no engine needed for set / safe_get / _update_references) holding the
  model's data and index; a wrong-typed cell (None in the model) is an alt-text string."""
  import column, types
  c = object.__new__(column.ReferenceColumn)
  c._data = ["alt-text" if v is None else v for v in view._data]
  c.type_obj = types.SimpleNamespace(default=0, is_right_type=lambda v: isinstance(v, int))
  c._relation = _real_rel(view._relation)
  return c


def _col_view(c):
  import types
  return types.SimpleNamespace(_data=[v if isinstance(v, int) else None for v in c._data],
                               _relation=_rel_view(c._relation))


def _n_col_set(args):
  c = _real_col(args["self"])
  v = args["value"]
  res = c.set(args["row_id"], "alt-text" if v is None else v)
  return NativeOutcome(res, {"self": _col_view(c)})


for _c in CONTRACTS:
  if _c.prefix == "C10.refcol.set": _c.native = _n_col_set
