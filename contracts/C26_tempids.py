"""C26 — temporary row ids: ActionSummary.update_new_rows_map / translate_new_row_ids, their
composition (a lemma function below, which calls the two REAL methods), and
BaseReferenceColumn._reject_unresolved_temp_ids.

Environment: `self._forTable(table_id)` returns that table's TableDelta (`self._t` in the model);
by construction of _forTable (dict.get / setdefault keyed by table id) other tables' deltas are not
touched - that frame fact is ASSUMED with the stub."""
import os
from vlib.pysym import *
from vlib.pysym.interp import SelfModel

HERE = os.path.abspath(__file__)

Delta = Obj("TableDelta", temp_row_ids=MapOf(Int, Int))
Summary = lambda: Obj("ActionSummary", _t=Delta, consts={
    "_forTable": SelfModel("ActionSummary._forTable(table_id) -> that table's TableDelta",
                           lambda ip, s, tid: s.fields["_t"])},
    real_cls=None)


def _summary_shape():
  import action_summary
  sh = Summary()
  sh.real_cls = action_summary.ActionSummary
  return sh


_defs = {
  "n": "lambda: min(len(temp_row_ids), len(final_row_ids))",
  "temp": "lambda j: temp_row_ids[j] is not None and temp_row_ids[j] < 0",
  "M": "lambda: self._t.temp_row_ids",
}


def build():
  S = _summary_shape()
  out = []
  out.append(Contract(
    prefix="C26.update", target="action_summary:ActionSummary.update_new_rows_map",
    file="sandbox/grist/action_summary.py",
    params=dict(self=S, table_id=Opaque("TableId"), temp_row_ids=Seq(Opt(Int)),
                final_row_ids=Seq(Int)),
    ensures={
      # the last pair with a given temporary id wins ("its mapping will be overridden")
      "last_mapping_wins": "forall(j, 0 <= j < n() and temp(j) and "
                           "forall(m, j < m < n(), not (temp(m) and temp_row_ids[m] == temp_row_ids[j])), "
                           "temp_row_ids[j] in M() and M()[temp_row_ids[j]] == final_row_ids[j])",
      # only negative ids are remembered; everything else is left as it was (frame)
      "others_untouched": "forall(k, not exists(j, 0 <= j < n(), temp(j) and temp_row_ids[j] == k), "
                          "(k in M()) == (k in old(self._t.temp_row_ids)) and "
                          "M()[k] == old(self._t.temp_row_ids)[k])",
      "only_negative_added": "forall(k, k >= 0, (k in M()) == (k in old(self._t.temp_row_ids)))",
    }, defs=_defs))
  out.append(Contract(
    prefix="C26.translate", target="action_summary:ActionSummary.translate_new_row_ids",
    file="sandbox/grist/action_summary.py",
    params=dict(self=S, table_id=Opaque("TableId"), row_ids=Seq(Int)),
    ensures={
      "same_length": "len(result) == len(row_ids)",
      "mapped_or_identity": "forall(i, 0 <= i < len(row_ids), result[i] == "
                            "(self._t.temp_row_ids[row_ids[i]] if row_ids[i] in self._t.temp_row_ids "
                            "else row_ids[i]))",
      "map_unchanged": "forall(k, True, (k in self._t.temp_row_ids) == (k in old(self._t.temp_row_ids)) "
                       "and self._t.temp_row_ids[k] == old(self._t.temp_row_ids)[k])",
    }))
  # composition lemma: executes the two real methods one after the other
  out.append(Contract(
    prefix="C26.roundtrip", target="contracts.C26_tempids:lemma_update_then_translate", file=HERE,
    params=dict(summary=S, table_id=Opaque("TableId"), temp_row_ids=Seq(Opt(Int)),
                final_row_ids=Seq(Int), row_ids=Seq(Int)),
    requires={"no_prior_nonneg_keys": "forall(k, k >= 0, k not in summary._t.temp_row_ids)"},
    ensures={
      "temp_ids_resolve": "forall(i, j, 0 <= i < len(row_ids) and 0 <= j < n() and temp(j) and "
                          "temp_row_ids[j] == row_ids[i] and "
                          "forall(m, j < m < n(), not (temp(m) and temp_row_ids[m] == row_ids[i])), "
                          "result[i] == final_row_ids[j])",
      "real_ids_unchanged": "forall(i, 0 <= i < len(row_ids) and row_ids[i] >= 0, result[i] == row_ids[i])",
      "unknown_temp_ids_stay_negative": "forall(i, 0 <= i < len(row_ids) and row_ids[i] < 0 and "
                                        "row_ids[i] not in old(summary._t.temp_row_ids) and "
                                        "not exists(j, 0 <= j < n(), temp(j) and temp_row_ids[j] == row_ids[i]), "
                                        "result[i] == row_ids[i])",
    }, defs=_defs,
    notes="lemma function defined in this file; its body only calls the two real methods"))
  # reference columns: a negative id that survived translation is rejected
  Col = Obj("BaseReferenceColumn", table_id=Opaque("TableId"), col_id=Opaque("ColId"))
  import column
  Col.real_cls = column.BaseReferenceColumn
  out.append(Contract(
    prefix="C26.reject_ref", target="column:BaseReferenceColumn._reject_unresolved_temp_ids",
    file="sandbox/grist/column.py", params=dict(self=Col, values=Seq(Int)),
    loops={0: LoopSpec("C26.reject_ref.loop", index="vi", invariants={
      "none_negative_so_far": "forall(i, 0 <= i < vi, values[i] >= 0)"})},
    ensures={"returns_only_when_all_resolved": "forall(i, 0 <= i < len(values), values[i] >= 0)"},
    raises={"ValueError": "exists(i, 0 <= i < len(values), values[i] < 0)"}))
  out.append(Contract(
    prefix="C26.reject_reflist", target="column:BaseReferenceColumn._reject_unresolved_temp_ids",
    file="sandbox/grist/column.py", params=dict(self=Col, values=Seq(Seq(Int))),
    loops={0: LoopSpec("C26.reject_reflist.outer", index="vi", invariants={
             "none_negative_so_far": "forall(i, k, 0 <= i < vi and 0 <= k < len(values[i]), values[i][k] >= 0)"}),
           1: LoopSpec("C26.reject_reflist.inner", index="ri", invariants={
             "prefix_ok": "forall(k, 0 <= k < ri, value[k] >= 0)"})},
    ensures={"returns_only_when_all_resolved":
             "forall(i, k, 0 <= i < len(values) and 0 <= k < len(values[i]), values[i][k] >= 0)"},
    raises={"ValueError": "exists(i, k, 0 <= i < len(values) and 0 <= k < len(values[i]), values[i][k] < 0)"}))
  return out


def lemma_update_then_translate(summary, table_id, temp_row_ids, final_row_ids, row_ids):
  summary.update_new_rows_map(table_id, temp_row_ids, final_row_ids)
  return summary.translate_new_row_ids(table_id, row_ids)


CONTRACTS = build()


# ------------------------------------------------------------------------------------------
# native runners (replay of counter-models on the real classes)
# ------------------------------------------------------------------------------------------

def _real_summary(args_self):
  import action_summary
  s = action_summary.ActionSummary()
  s._forTable("T").temp_row_ids = dict(args_self._t.temp_row_ids)
  return s


def _view(s):
  import types
  return types.SimpleNamespace(_t=types.SimpleNamespace(
      temp_row_ids=dict(s._forTable("T").temp_row_ids)))


def _n_update(args):
  s = _real_summary(args["self"])
  r = s.update_new_rows_map("T", args["temp_row_ids"], args["final_row_ids"])
  return NativeOutcome(r, {"self": _view(s)})

def _n_translate(args):
  s = _real_summary(args["self"])
  r = s.translate_new_row_ids("T", args["row_ids"])
  return NativeOutcome(r, {"self": _view(s)})

def _n_roundtrip(args):
  s = _real_summary(args["summary"])
  r = lemma_update_then_translate(s, "T", args["temp_row_ids"], args["final_row_ids"], args["row_ids"])
  return NativeOutcome(r, {"summary": _view(s)})

def _n_reject(args):
  import column, types
  fake = types.SimpleNamespace(table_id="T", col_id="c")
  return column.BaseReferenceColumn._reject_unresolved_temp_ids(fake, args["values"])

for _c, _n in zip(CONTRACTS, (_n_update, _n_translate, _n_roundtrip, _n_reject, _n_reject)):
  _c.native = _n
