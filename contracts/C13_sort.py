"""C13 (lemmas) — table.make_sort_spec against its specification, and sort_key.SortKey.__lt__ for
sort specs of 0..3 columns: it is the signed lexicographic order of the value tuples with the row
id as last resort - exactly the contract C14 assumes of the sort key.

SortKey.__lt__ is a method of a class created inside make_sort_key; its closure variable
`col_sort_spec` is supplied as a list of (column, sign) pairs of the chosen length with symbolic
signs in {1, -1}.  Cell values are opaque with an uninterpreted `<` that is asymmetric - the
statement's hypothesis that sort values are mutually comparable (so no TypeError path)."""
import z3
from vlib.pysym import *
from vlib.pysym.values import opaque_sort
from vlib.pysym.interp import Model

Val = Opaque("Val")


def _vlt(ip, a, b):
  f = ip.uf("val_lt", [opaque_sort("Val")] * 2, z3.BoolSort())
  return f(a.t, b.t)


def _d_lt(ip, a, b): return SBool(_vlt(ip, a, b))


def _axioms(ip):
  f = ip.uf("val_lt", [opaque_sort("Val")] * 2, z3.BoolSort())
  a, b = z3.Consts("va vb", opaque_sort("Val"))
  return [z3.ForAll([a, b], z3.Implies(f(a, b), z3.Not(f(b, a))))]


def _sortkey_contracts():
  out = []
  for n in range(0, 4):
    KeyS = Obj("SortKey", row_id=Int, values=Tup(*([Val] * n)))
    params = dict(self=KeyS, other=KeyS)
    for i in range(n): params["sign%d" % i] = Int
    # decisive(i): first column where the values differ in either direction
    def tie(i): return "(not lt(self.values[%d], other.values[%d]) and not lt(other.values[%d], self.values[%d]))" % (i, i, i, i)
    def before(i, x, y): return "((lt(%s.values[%d], %s.values[%d]) and sign%d == 1) or (lt(%s.values[%d], %s.values[%d]) and sign%d == -1))" % (x, i, y, i, i, y, i, x, i, i)
    def vlt(x, y):
      parts = []
      for i in range(n):
        parts.append("(" + " and ".join([tie(j) for j in range(i)] + [before(i, x, y)]) + ")")
      return "(" + (" or ".join(parts) if parts else "False") + ")"
    spec = "result == (%s or (not %s and self.row_id < other.row_id))" % (
        vlt("self", "other"), vlt("other", "self"))
    c = Contract(
      prefix="C13.sortkey_lt_%d" % n, target="sort_key:make_sort_key.SortKey.__lt__",
      file="sandbox/grist/sort_key.py", params=params,
      requires={"signs": " and ".join(["(sign%d == 1 or sign%d == -1)" % (i, i) for i in range(n)]) or "True"},
      ensures={"signed_lexicographic_then_row_id": spec},
      defs={"lt": _d_lt},
      notes="sort spec of %d column(s); closure variable col_sort_spec = [(col, sign_i)]" % n)
    c.opq_lt["Val"] = _vlt
    c.raw_axioms = _axioms
    c.n_cols = n
    c.closure_env = (lambda n: lambda args: {
        "col_sort_spec": [(None, args["sign%d" % i]) for i in range(n)]})(n)
    out.append(c)
  return out


def _bind_closure(c):
  """col_sort_spec is read from the enclosing function's scope: give it as a stub built from the
  symbolic sign parameters (done per path in post_env is too late; use a Model-like lazy list)."""
  return c


def _spec_contracts():
  out = []
  t = "table:make_sort_spec"
  f = "sandbox/grist/table.py"
  # sort_by given (non-empty string): only that column
  out.append(Contract(
    prefix="C13.sort_spec.sort_by", target=t, file=f,
    params=dict(order_by=Seq(Str, "tuple"), sort_by=Str, has_manual_sort=Bool),
    requires={"sort_by_nonempty": "len(sort_by) > 0"},
    ensures={"only_that_column": "len(result) == 1 and result[0] == sort_by"}))
  common = {
    "id_truncates": "implies(exists(i, 0 <= i < len(order_by), order_by[i] == 'id'), "
                    "forall(k, 0 <= k < len(order_by) and order_by[k] == 'id' and "
                    "forall(m, 0 <= m < k, order_by[m] != 'id'), len(result) == k and "
                    "forall(m, 0 <= m < k, result[m] == order_by[m])))",
    "manual_sort_appended": "implies(not exists(i, 0 <= i < len(order_by), order_by[i] == 'id') and "
                            "has_manual_sort and not exists(i, 0 <= i < len(order_by), order_by[i] == 'manualSort'), "
                            "len(result) == len(order_by) + 1 and result[len(order_by)] == 'manualSort' "
                            "and forall(m, 0 <= m < len(order_by), result[m] == order_by[m]))",
    "otherwise_unchanged": "implies(not exists(i, 0 <= i < len(order_by), order_by[i] == 'id') and "
                           "(not has_manual_sort or exists(i, 0 <= i < len(order_by), order_by[i] == 'manualSort')), "
                           "len(result) == len(order_by) and "
                           "forall(m, 0 <= m < len(order_by), result[m] == order_by[m]))",
  }
  for sb, name in ((None, "none"), ("", "empty")):
    out.append(Contract(
      prefix="C13.sort_spec.order_by_tuple_%s" % name, target=t, file=f,
      params=dict(order_by=Seq(Str, "tuple"), sort_by=sb, has_manual_sort=Bool),
      ensures=common))
  # single string / None order_by behave like the 1-tuple / empty tuple
  out.append(Contract(
    prefix="C13.sort_spec.order_by_str", target=t, file=f,
    params=dict(order_by=Str, sort_by=None, has_manual_sort=Bool),
    ensures={"as_one_tuple":      # (the function rebinds order_by: old() is the argument)
             "implies(old(order_by) == 'id', len(result) == 0) and "
             "implies(old(order_by) != 'id' and has_manual_sort and old(order_by) != 'manualSort', "
             "        result == (old(order_by), 'manualSort')) and "
             "implies(old(order_by) != 'id' and not (has_manual_sort and old(order_by) != 'manualSort'), "
             "        result == (old(order_by),))"}))
  out.append(Contract(
    prefix="C13.sort_spec.order_by_none", target=t, file=f,
    params=dict(order_by=None, sort_by=None, has_manual_sort=Bool),
    ensures={"only_manual_sort": "implies(has_manual_sort, result == ('manualSort',)) and "
                                 "implies(not has_manual_sort, result == ())"}))
  out.append(Contract(
    prefix="C13.sort_spec.bad_order_by", target=t, file=f,
    params=dict(order_by=Int, sort_by=None, has_manual_sort=Bool),
    ensures={"unreachable": "False"}, raises={"TypeError": "True"}))
  out.append(Contract(
    prefix="C13.sort_spec.bad_sort_by", target=t, file=f,
    params=dict(order_by=None, sort_by=Int, has_manual_sort=Bool),
    requires={"truthy": "sort_by != 0"},
    ensures={"unreachable": "False"}, raises={"TypeError": "True"}))
  return out


def _cellv(ip, col, row_id):
  f = ip.uf("cell_value", [opaque_sort("SortCol"), z3.IntSort()], opaque_sort("Val"))
  return SOpq(f(col.fields["_c"].t, ip.int_term(row_id)), "Val")


def _conv(name):
  def f(ip, col, v):
    g = ip.uf(name, [opaque_sort("SortCol"), opaque_sort("Val")], opaque_sort("Val"))
    return SOpq(g(col.fields["_c"].t, v.t), "Val")
  return f


def _sortkey_init_contracts():
  """SortKey.__init__: explicit search values are kept exactly as given (they are what the caller
  compares with); without them the key holds the row's own cell values."""
  from vlib.pysym.interp import SelfModel
  out = []
  ColS = lambda: Obj("Column", _c=Opaque("SortCol"), consts={
      "get_cell_value": SelfModel("column.get_cell_value(row_id) (pure read)", _cellv),
      # any conversion a column offers is an arbitrary function of the value
      "convert": SelfModel("column.convert (arbitrary function)", _conv("col_convert")),
      "_convert_raw_value": SelfModel("column._convert_raw_value (arbitrary function)",
                                      _conv("col_convert_raw"))})
  for n in (1, 2):
    for given in (True, False):
      params = dict(self=Obj("SortKey"), row_id=Int)
      for i in range(n): params["col%d" % i] = ColS()
      if given:
        params["values"] = Tup(*([Val] * n))
        ens = {"explicit_values_kept": "self.values == values", "row_id_kept": "self.row_id == row_id"}
      else:
        params["values"] = None
        ens = {"own_cell_values": "self.values == (%s)" % "".join(
                 "cellv(col%d, row_id), " % i for i in range(n)),
               "row_id_kept": "self.row_id == row_id"}
      c = Contract(
        prefix="C13.sortkey_init_%d_%s" % (n, "explicit" if given else "own"),
        target="sort_key:make_sort_key.SortKey.__init__", file="sandbox/grist/sort_key.py",
        params=params, ensures=ens,
        defs={"cellv": lambda ip, col, r: _cellv(ip, col, r)},
        notes="closure variable col_sort_spec = [(col_i, +1)] with %d column(s)" % n)
      # closure variables of make_sort_key: `col_sort_spec` pairs a column (object or id) with a
      # sign; `table.get_column(c)` resolves a column id to the column - modelled as the identity
      # on the same tokens, so the contract holds whether the key class stores objects or ids.
      c.closure_env = (lambda n: lambda args: {
          "col_sort_spec": [(args["col%d" % i], 1) for i in range(n)],
          "table": ObjVal("Table", {"get_column": Model("table.get_column(col) (resolves the column)",
                                                        lambda ip, col: col)})})(n)
      out.append(c)
  return out


CONTRACTS = _spec_contracts() + _sortkey_contracts() + _sortkey_init_contracts()
