"""Value pool shared by the bounded checks C22 (conversion) and C24 (encoding): Python values
reachable from user input and formulas — numbers, strings, bytes, containers, dates, records and
record sets of a real two-table engine, AltText, errors, and user-defined (hostile) classes.
Not a contract by itself: it is the stated finite bound the contracts are evaluated over.
pool() -> [(label, factory)]; labels are unique and stable; factory() returns the value (a fresh
one for single-use iterators)."""
import collections
import datetime
import decimal
import enum
import fractions
import math

from vlib import common

common.setup_grist_path()


# ---------------------------------------------------------------------------------------------
# Hostile / user-defined classes a formula could return
class StrRaises(object):
  def __str__(self): raise ValueError("no str")
  def __repr__(self): return "StrRaises()"

class StrReprRaise(object):
  def __str__(self): raise ValueError("no str")
  def __repr__(self): raise ValueError("no repr")

class BoolRaises(object):
  def __bool__(self): raise ValueError("no bool")
  def __repr__(self): return "BoolRaises()"

class EqRaises(object):
  __hash__ = object.__hash__
  def __eq__(self, other): raise ValueError("no eq")
  def __repr__(self): return "EqRaises()"

class EqTrue(object):
  __hash__ = object.__hash__
  def __eq__(self, other): return True
  def __ne__(self, other): return False
  def __repr__(self): return "EqTrue()"

class FloatRaises(object):
  def __float__(self): raise ValueError("no float")
  def __repr__(self): return "FloatRaises()"

class FloatIs(object):
  def __init__(self, x): self.x = x
  def __float__(self): return self.x
  def __repr__(self): return "FloatIs(%r)" % (self.x,)

class IterRaises(object):
  def __iter__(self): raise ValueError("no iter")
  def __repr__(self): return "IterRaises()"

class LenRaises(object):
  def __len__(self): raise ValueError("no len")
  def __repr__(self): return "LenRaises()"

class StrSub(str): pass
class IntSub(int): pass
class FloatSub(float): pass
class BytesSub(bytes): pass
class ListSub(list): pass
class DictSub(dict): pass
class StrSubOwnStr(str):
  def __str__(self): return self
class StrGivesSub(object):
  def __str__(self): return StrSub("sub")
  def __repr__(self): return "StrGivesSub()"
Point = collections.namedtuple("Point", "x y")
class Color(enum.IntEnum):
  RED = 1
  BIG = 2 ** 40
class Plain(object):
  def __repr__(self): return "Plain()"
class ErrStrRaises(Exception):
  def __str__(self): raise ValueError("no str")
class ReprGivesSub(object):
  def __repr__(self): return StrSub("<sub repr>")


def safe_label(v, limit=60):
  try:
    s = repr(v)
  except Exception:
    s = "<%s>" % type(v).__name__
  return s if len(s) <= limit else s[:limit] + "..."


_STATE = {}

def _engine_values():
  """Real Record / RecordSet objects of two tables of a real engine (built once per process)."""
  if "eng" in _STATE:
    return _STATE["eng"]
  from vlib.rtc import eng
  e = eng.new_engine()
  eng.apply(e, [["AddTable", "T", [{"id": "a", "type": "Int", "isFormula": False}]],
                ["AddTable", "U", [{"id": "a", "type": "Int", "isFormula": False}]],
                ["BulkAddRecord", "T", [1, 2, 3], {"a": [10, 20, 20]}],
                ["BulkAddRecord", "U", [1, 2], {"a": [1, 2]}]])
  T, U = e.tables["T"], e.tables["U"]
  vals = [
    ("rec:T[1]", T.Record(1)), ("rec:T[0]", T.Record(0)), ("rec:T[99]", T.Record(99)),
    ("rec:U[2]", U.Record(2)), ("rec:T[2**31]", T.Record(2 ** 31)),
    ("rset:T[1,2]", T.RecordSet([1, 2])), ("rset:T[]", T.RecordSet([])),
    ("rset:T[2,1]sorted", T.RecordSet([2, 1], sort_by="-a")), ("rset:U[1]", U.RecordSet([1])),
    ("rset:T(tuple)", T.RecordSet((3, 1))),
    ("list-of-rset:T", [T.RecordSet([1, 2]), T.RecordSet([2, 3])]),
    ("list-of-rset:T,U", [T.RecordSet([1]), U.RecordSet([1])]),
    ("list-of-rec:T", [T.Record(1), T.Record(3)]), ("list-of-rec:T,U", [T.Record(1), U.Record(1)]),
    ("tuple-of-rec:T", (T.Record(2),)), ("list-rec0", [T.Record(0)]),
  ]
  _STATE["eng"] = vals
  return vals


def pool():
  """[(label, factory)] — the fixed value pool, in a fixed order; labels are unique."""
  if "pool" in _STATE:
    return _STATE["pool"]
  import objtypes, moment
  out = []
  def add(label, v): out.append((label, (lambda v=v: v)))
  def addf(label, f): out.append((label, f))
  # numbers
  ints = [0, 1, -1, 2, 5, 12, 255, 2 ** 31 - 1, 2 ** 31, -2 ** 31, -2 ** 31 - 1, 2 ** 53, 2 ** 53 + 1,
          2 ** 63, -2 ** 63, 10 ** 22, 10 ** 308, 10 ** 309, 10 ** 400, -10 ** 400, 10 ** 5000]
  for i in ints: add("int:%s" % (i if abs(i) < 10 ** 30 else "%s10**%d" % ("-" if i < 0 else "", len(str(abs(i))) - 1 if abs(i) < 10 ** 4000 else 5000)), i)
  add("bool:True", True); add("bool:False", False); add("None", None)
  for x in [0.0, -0.0, 1.0, -1.0, 1.5, -1.5, 0.1, 1e15, 2.0 ** 53, 1e16, 1e22, 123456789012345678.0,
            1e300, 1.7976931348623157e308, 5e-324, 2147483647.0, 2147483648.0, 2147483647.5,
            -2147483648.0, -2147483649.0, 1577923200.0, 1577923200.5, -1e11, 253402300800.0, 1e18]:
    add("float:%r" % x, x)
  add("float:inf", float("inf")); add("float:-inf", float("-inf")); add("float:nan", float("nan"))
  add("complex:1j", 1j); add("complex:2+0j", complex(2, 0))
  for d in ["1.5", "0", "-0", "1E+400", "NaN", "sNaN", "Infinity", "12"]:
    add("Decimal:%s" % d, decimal.Decimal(d))
  add("Fraction:1/2", fractions.Fraction(1, 2)); add("Fraction:7", fractions.Fraction(7))
  add("Fraction:10**400", fractions.Fraction(10 ** 400))
  # strings
  strs = ["", " ", "0", "1", "-1", "+5", "12", "1.5", "-1.5", ".5", "5.", "1e3", "1E3", "1e400", "-1e400",
          "1e-400", "inf", "-inf", "Infinity", "nan", "NaN", "-nan", "true", "True", "TRUE", "tRuE",
          "false", "False", "no", "No", "yes", "YES", "y", "n", "on", "off", "abc", "12abc", "0x10",
          "1,5", "1_000", " 12 ", "\t12\n", "１２", "१२", "12\x00", "\x00", "\xe9",
          "\ud800", "a" * 300, "2147483647", "2147483648", "-2147483648", "-2147483649",
          "2147483647.9", "9007199254740993", "1" + "0" * 400, "-1" + "0" * 400, "1" + "0" * 5000,
          "[]", "[ ]", " []", "[] ", "[1,2]", "[1, 2]", "[2,1,2]", "[\"a\",\"b\"]", "[\"a\", 1]", "[0]",
          "[-1]", "[1.5]", "[1.0]", "[true]", "[null]", "[[1]]", "[\"\"]", "[{}]", "[1e400]",
          "[2147483648]", "[1,", "[", "[1", "[1]x", "[NaN]", "[Infinity]", "{}", "{\"a\":1}", "null",
          "\"a\"", "[\"[]\"]", "[\"[1]\"]", "[\"a,b\"]",
          "RecordList([1,2], group_by=None, sort_by=None)", "RecordList([1, 2])", "RecordList([])",
          "RecordList([", "RecordList([a])", "RecordList([0])", "RecordList([-1])", "RecordList([1.5])",
          "RecordList([2147483648])", "RecordList([1,2]", "RecordList([ 3 ], group_by=('a',), sort_by='[9]')",
          "RecordList", "recordlist([1])", "T[1]", "T[[1, 2]]",
          "2020-01-02", "2020-01-02T03:04:05", "2020-01-02 03:04:05", "2020-01-02T03:04:05Z",
          "2020-01-02T03:04:05+05:00", "2020-01-02T03:04:05.123456", "2020-01-02T03:04", "2020-01",
          "2020", "20200102", "20200102T030405", "2020-13-45", "2020-02-30", "0001-01-01",
          "9999-12-31", "9999-12-31T23:59:59+00:00", "0001-01-01T00:00:00+14:00", "10000-01-01",
          "0000-01-01", "1970-01-01", "1969-12-31T23:59:59", "2020-W01", "2020-001", "02/01/2020",
          "Jan 2 2020", "2020-01-02T25:00:00", "2020-01-02T03:04:05+99:00", "-2020-01-02",
          "1577923200", "d", "D", "E", "L", "None", "()", "(1, 2)", "{1}", "b'12'", "AltText('x')",
          "CENSORED", "a,b", "\"a\",\"b\"", "a\nb"]
  for s in strs: add("str:%s" % (s if len(s) < 40 else s[:12] + "..len%d" % len(s)), s)
  for b in [b"", b"abc", b"12", b"1.5", b"\xff", b"[1]", b"[]", b"true", b"2020-01-02", b"\xc3\xa9"]:
    add("bytes:%r" % b, b)
  add("bytearray:12", bytearray(b"12")); add("memoryview:12", memoryview(b"12"))
  # containers
  conts = [[], [1], [1, 2], [2, 1, 2], [0], [-1], [1.5], [1.0], ["a"], ["a", "b"], [""], [None], [True],
           [False], [[1]], [[]], [1, "a"], ["1"], [2 ** 31], [2 ** 31 - 1], [10 ** 400], [float("nan")],
           [b"a"], (), (1, 2), ("a",), ("a", "b"), (None,), (1, "a"), ((1,),), {}, {"a": 1}, {1: 2}, {"a": 1, "b": 2},
           {0: 0}, set(), {1}, {"a"}, frozenset({1}), frozenset(), [[1, 2], [3]], ["a", ["b"]],
           [{"a": 1}], ["L", 1, 2], ["d", 0], [1, None], ["a", None], range(3), range(0), range(1, 3)]
  for i, c in enumerate(conts): add("cont%d:%r" % (i, c), c)
  addf("iter:[1,2]", lambda: iter([1, 2])); addf("iter:['a']", lambda: iter(["a"]))
  addf("gen:1,2", lambda: (x for x in [1, 2])); addf("gen:empty", lambda: (x for x in []))
  addf("gen:raises", lambda: (1 // 0 for x in [1]))
  rec = []; rec.append(rec); add("recursive-list", rec)
  deep = []
  for _ in range(3000): deep = [deep]
  add("deep-list-3000", deep)
  # dates
  utc = datetime.timezone.utc
  ny = moment.tzinfo("America/New_York")
  dates = [datetime.date(2020, 1, 2), datetime.date(1, 1, 1), datetime.date(9999, 12, 31),
           datetime.date(1970, 1, 1), datetime.date(1969, 12, 31),
           datetime.datetime(2020, 1, 2, 3, 4, 5), datetime.datetime(2020, 1, 2, 3, 4, 5, 123456),
           datetime.datetime(2020, 1, 2, 3, 4, 5, tzinfo=utc), datetime.datetime(2020, 3, 8, 2, 30, tzinfo=ny),
           datetime.datetime(2020, 7, 1, tzinfo=ny), datetime.datetime(2020, 11, 1, 1, 30),
           datetime.datetime(2020, 1, 1, tzinfo=datetime.timezone(datetime.timedelta(hours=14))),
           datetime.datetime.min, datetime.datetime.max, datetime.datetime.min.replace(tzinfo=utc),
           datetime.datetime.max.replace(tzinfo=ny), datetime.datetime(1970, 1, 1),
           datetime.time(1, 2), datetime.timedelta(days=1), datetime.timedelta(0)]
  for i, d in enumerate(dates): add("date%d:%r" % (i, d), d)
  # grist objects
  add("AltText:abc", objtypes.AltText("abc")); add("AltText:12", objtypes.AltText("12", "Int"))
  add("AltText:1.5", objtypes.AltText("1.5")); add("AltText:true", objtypes.AltText("true", "Bool"))
  add("AltText:''", objtypes.AltText("")); add("AltText:[1,2]", objtypes.AltText("[1,2]"))
  add("AltText:1e400", objtypes.AltText("1e400")); add("AltText:2020-01-02", objtypes.AltText("2020-01-02", "Date"))
  add("AltText:digits401", objtypes.AltText("1" + "0" * 400))
  add("Raised:ValueError", objtypes.RaisedException(ValueError("x")))
  add("Raised:ZeroDivision+input", objtypes.RaisedException(ZeroDivisionError("d"), user_input=5))
  add("Raised:decoded", objtypes.RaisedException.decode_args("TypeError", "msg"))
  add("Raised:None", objtypes.RaisedException(None))
  add("Raised:InvalidTypedValue", objtypes.RaisedException(objtypes.InvalidTypedValue("Int", "x")))
  add("exc:ValueError", ValueError("x")); add("exc:KeyError", KeyError("k")); add("exc:empty", Exception())
  add("RecordList:[1,2]", objtypes.RecordList([1, 2])); add("RecordList:[]", objtypes.RecordList([]))
  add("RecordList:[2,1]grouped", objtypes.RecordList([2, 1], group_by=("a",), sort_by=("-a",)))
  add("RecordList:[0]", objtypes.RecordList([0])); add("RecordList:['a']", objtypes.RecordList(["a"]))
  add("pending", objtypes._pending_sentinel); add("censored", objtypes._censored_sentinel)
  add("Unmarshallable", objtypes.UnmarshallableValue("<x>"))
  add("RecordStub", objtypes.RecordStub("T", 1)); add("RecordSetStub", objtypes.RecordSetStub("T", [1, 2]))
  add("ReferenceLookup", objtypes.ReferenceLookup("x", {"column": "a"}))
  for label, v in _engine_values(): add(label, v)
  # user classes
  for v in [StrRaises(), StrReprRaise(), BoolRaises(), EqRaises(), EqTrue(), FloatRaises(),
            FloatIs(1.5), FloatIs(float("nan")), IterRaises(), LenRaises(), Plain(), StrGivesSub()]:
    add("user:%s" % type(v).__name__ + (":%r" % v.x if isinstance(v, FloatIs) else ""), v)
  add("StrSub:12", StrSub("12")); add("StrSub:abc", StrSub("abc")); add("StrSub:''", StrSub(""))
  add("StrSub:[1]", StrSub("[1]")); add("StrSubOwnStr:x", StrSubOwnStr("x"))
  add("IntSub:5", IntSub(5)); add("IntSub:0", IntSub(0)); add("IntSub:2**40", IntSub(2 ** 40))
  add("FloatSub:1.5", FloatSub(1.5)); add("FloatSub:nan", FloatSub("nan")); add("BytesSub:12", BytesSub(b"12"))
  add("ListSub:[1]", ListSub([1])); add("ListSub:[]", ListSub()); add("DictSub", DictSub(a=1))
  add("namedtuple", Point(1, 2)); add("IntEnum:1", Color.RED); add("IntEnum:2**40", Color.BIG)
  add("object", object()); add("class:int", int); add("class:Plain", Plain); add("lambda", (lambda: 1))
  add("builtin:len", len); add("module:math", math); add("Ellipsis", Ellipsis); add("NotImplemented", NotImplemented)
  # dicts with odd keys / values, nesting, errors wrapping odd values (C24's quantifier)
  T1 = dict(_engine_values())["rec:T[1]"]
  odd = [{StrSub("k"): 1}, {"a": StrSub("v")}, {"k": {StrSub("k2"): 1}}, [{StrSub("k"): 1}], ({StrSub("k"): 1},),
         {StrSubOwnStr("k"): 1}, {None: 1}, {(1, 2): 3}, {"a": 1, 2: "b"}, {"a": {1, 2}}, {"a": b"\xff"}, {"a": b"x"},
         {"": ""}, {"a": float("nan")}, {"d": datetime.date(2020, 1, 2)}, {"dt": datetime.datetime(2020, 1, 2, 3, 4)},
         {"r": T1}, {"e": objtypes.RaisedException(ValueError("x"))}, {"a": 10 ** 400}, {"\ud800": 1},
         {"a": [1, {"b": (2, {"c": None})}]}, {"a": object()}, {"a": Plain}, {"L": ["L"]},
         DictSub({StrSub("k"): 1}), collections.OrderedDict([("b", 1), ("a", 2)]),
         collections.defaultdict(list, {"a": [1]}), collections.Counter("aab"),
         [1, [2, [3, [4, (5, [6])]]]], [T1, {"a": T1}], [datetime.date(2020, 1, 2), None, 1.5, "x", True],
         [StrSub("a"), IntSub(1), FloatSub(1.5), BytesSub(b"b")], [float("inf"), float("-inf"), -0.0],
         ["E", "ValueError"], ["O", {"a": 1}], ["d", "x"], ["D", 0, "Nowhere/Zone"], ["R", "T", 1], ["U"], ["l", 1], ["P"]]
  for i, c in enumerate(odd): add("odd%d:%s" % (i, safe_label(c)), c)
  rd = {}; rd["self"] = rd; add("recursive-dict", rd)
  rl2 = [1]; rl2.append({"a": rl2}); add("recursive-list-via-dict", rl2)
  d500 = []
  for _ in range(500): d500 = [d500]
  add("deep-list-500", d500)
  dd = {}
  for _ in range(300): dd = {"k": dd}
  add("deep-dict-300", dd)
  add("Raised:input-dict-StrSub-key", objtypes.RaisedException(ValueError("x"), user_input={StrSub("k"): 1}))
  add("Raised:input-date", objtypes.RaisedException(ValueError("x"), user_input=datetime.date(2020, 1, 2)))
  add("Raised:input-None", objtypes.RaisedException(ValueError("x"), user_input=None))
  add("Raised:input-bigint", objtypes.RaisedException(ValueError("x"), user_input=10 ** 400))
  add("Raised:msg-StrSub", objtypes.RaisedException(ValueError(StrSub("m")), user_input=1))
  add("Raised:msg-StrSubOwnStr", objtypes.RaisedException(ValueError(StrSubOwnStr("m")), user_input=1))
  add("Raised:details", objtypes.RaisedException(ValueError("x"), include_details=True))
  add("Raised:KeyError-StrSub", objtypes.RaisedException(KeyError(StrSub("k")), user_input=1))
  add("Raised:str-raises", objtypes.RaisedException(ErrStrRaises()))
  add("Raised:CellError", objtypes.RaisedException(objtypes.CellError("T", "a", 1, ZeroDivisionError("z")), user_input=2))
  add("Raised:decoded-full", objtypes.RaisedException.decode_args("TypeError", "msg", "details", {"u": ["d", 0]}))
  add("Raised:decoded-u-None", objtypes.RaisedException.decode_args("TypeError", None, None, {"u": None}))
  add("Raised:nested", objtypes.RaisedException(ValueError("x"), user_input=objtypes.RaisedException(KeyError("k"))))
  add("Unmarshallable:nonstr", objtypes.UnmarshallableValue(StrSub("r")))
  add("ReprGivesSub", ReprGivesSub()); add("ReprRaises", StrReprRaise())
  labels = [l for l, _ in out]
  assert len(labels) == len(set(labels)), [l for l in labels if labels.count(l) > 1]
  _STATE["pool"] = out
  _STATE["pool_d"] = dict(out)
  return out


def value(label):
  pool()
  return _STATE["pool_d"][label]()
