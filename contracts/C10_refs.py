"""C10 (lemma) — ReferenceListColumn._raw_get_without: the stored list with the removed target ids
filtered out, order kept, None when nothing remains, and the raw value untouched when it is not a
reference list.  `self.raw_get` / `type_obj.is_right_type` are pure stubs."""
import z3
from vlib.pysym import *
from vlib.pysym.interp import Model, SelfModel


def build():
  import column
  out = []
  TypeObjYes = Obj("RefListType", consts={"is_right_type": Model("is_right_type -> True", lambda ip, v: True)})
  TypeObjNo = Obj("RefListType", consts={"is_right_type": Model("is_right_type -> False", lambda ip, v: False)})
  ColL = Obj("ReferenceListColumn", real_cls=column.ReferenceListColumn, _raw=Seq(Int),
             type_obj=TypeObjYes,
             consts={"raw_get": SelfModel("self.raw_get(row_id) (pure read)", lambda ip, s, r: s.fields["_raw"])})
  out.append(Contract(
    prefix="C10.raw_get_without", target="column:ReferenceListColumn._raw_get_without",
    file="sandbox/grist/column.py",
    params=dict(self=ColL, row_id=Int, target_row_ids=SetOf(Int)),
    ensures={
      "none_when_nothing_remains": "(result is None) == forall(i, 0 <= i < len(self._raw), "
                                   "self._raw[i] in target_row_ids)",
      "no_removed_id_left": "implies(result is not None, forall(j, 0 <= j < len(result), "
                            "result[j] not in target_row_ids))",
      "only_stored_ids": "implies(result is not None, forall(j, 0 <= j < len(result), "
                         "exists(i, 0 <= i < len(self._raw), self._raw[i] == result[j])))",
      "other_ids_kept": "implies(result is not None, forall(i, 0 <= i < len(self._raw) and "
                        "self._raw[i] not in target_row_ids, "
                        "exists(j, 0 <= j < len(result), result[j] == self._raw[i])))",
      "order_kept": "implies(result is not None, forall(j1, j2, 0 <= j1 < j2 < len(result), "
                    "exists(i1, i2, 0 <= i1 < i2 < len(self._raw), "
                    "self._raw[i1] == result[j1] and self._raw[i2] == result[j2])))",
      "not_longer": "implies(result is not None, 0 < len(result) <= len(self._raw))",
    }))
  ColO = Obj("ReferenceListColumn", real_cls=column.ReferenceListColumn, _raw=Opaque("OtherCell"),
             type_obj=TypeObjNo,
             consts={"raw_get": SelfModel("self.raw_get(row_id) (pure read)", lambda ip, s, r: s.fields["_raw"])})
  out.append(Contract(
    prefix="C10.raw_get_without_other", target="column:ReferenceListColumn._raw_get_without",
    file="sandbox/grist/column.py",
    params=dict(self=ColO, row_id=Int, target_row_ids=SetOf(Int)),
    ensures={"non_reflist_untouched": "result == self._raw"}))
  return out


def _native(args):
  import column, types
  raw = args["self"]._raw
  fake = types.SimpleNamespace(raw_get=lambda r: list(raw) if isinstance(raw, list) else raw,
                               type_obj=types.SimpleNamespace(
                                   is_right_type=lambda v: isinstance(v, list)))
  return column.ReferenceListColumn._raw_get_without(fake, args["row_id"], args["target_row_ids"])


CONTRACTS = build()
CONTRACTS[0].native = _native
