"""C14 — records.FindOps.lt/le/gt/ge/eq/previous/next/rank against the linear-scan definition.

Real code executed symbolically: FindOps.* and (inlined, real source) RecordSet._bisect_find,
_bisect_index, _find_eq, _at, _get_sort_key, _to_local_row_id, __len__, Record.__bool__.

Model of the environment (assumed contracts, listed in the evidence):
  * `self._rset._row_ids` is a list of ints (row ids, > 0), strictly increasing under the sort key
    (what `sorted(row_id_set, key=sort_key)` produces for distinct ids);
  * the sort key class (sort_key.make_sort_key(...).SortKey) obeys the contract proved separately
    in C13: SortKey(r) has the row's own values, SortKey(r, vals) has `vals` when truthy, and
    k1 < k2  <=>  vlt(k1.values, k2.values) or (not vlt(k2.values, k1.values) and k1.row < k2.row),
    where vlt (the lexicographic, signed comparison of value tuples) is a strict weak order - the
    statement's hypothesis that sort values are mutually comparable;
  * `table.Record(row_id, relation)` builds a record with that row id;
  * bisect.bisect_left/right return the partition point of a sorted list."""
import z3
from vlib.pysym import *
from vlib.pysym.values import opaque_sort, Shape
from vlib.pysym.interp import Model

Vals = Opaque("Vals")
Rel = Opaque("Rel")


def _ufs(ip):
  VS = opaque_sort("Vals")
  return (ip.uf("valsof", [z3.IntSort()], VS), ip.uf("vlt", [VS, VS], z3.BoolSort()),
          ip.uf("truthy_Vals", [VS], z3.BoolSort()))


def _key(ip, row_id, values=None):
  valsof, vlt, truthy = _ufs(ip)
  r = ip.int_term(row_id)
  if values is None:
    v = valsof(r)
  elif isinstance(values, SOpq):
    v = z3.If(truthy(values.t), values.t, valsof(r))
  else:
    raise Unsupported("sort key built from %r" % (values,))
  return ObjVal("SortKey", {"values": SOpq(v, "Vals"), "row_id": SInt(r)})


def _key_lt(ip, a, b):
  _, vlt, _ = _ufs(ip)
  va, vb = a.fields["values"].t, b.fields["values"].t
  return z3.Or(vlt(va, vb), z3.And(z3.Not(vlt(vb, va)),
                                   ip.int_term(a.fields["row_id"]) < ip.int_term(b.fields["row_id"])))


def _record(ip, row_id, relation=None):
  import records
  return ObjVal("Record", {"_row_id": row_id, "_source_relation": relation}, records.Record)


def _axioms(ip):
  valsof, vlt, truthy = _ufs(ip)
  VS = opaque_sort("Vals")
  a, b, c = z3.Consts("ax_a ax_b ax_c", VS)
  return [
    z3.ForAll([a], z3.Not(vlt(a, a))),
    z3.ForAll([a, b, c], z3.Implies(z3.And(vlt(a, b), vlt(b, c)), vlt(a, c))),
    # incomparability is transitive (strict weak order = mutually comparable values)
    z3.ForAll([a, b, c], z3.Implies(z3.And(z3.Not(vlt(a, b)), z3.Not(vlt(b, c))),
                                    z3.Not(vlt(a, c)))),
  ]


def _mk_shapes():
  import records
  TableS = Obj("Table", consts={"Record": Model("table.Record(row_id, relation)", _record)})
  RSet = Obj("RecordSet", real_cls=records.RecordSet,
             consts={"_sort_key": Model("sort_key.SortKey replaced by its contract (the contract itself is proved: C13.sortkey_init_*, C13.sortkey_lt_*)", _key),
                     "_sort_by": None, "_group_by": None},
             _row_ids=Seq(Int), _source_relation=Rel, _table=TableS)
  Find = Obj("FindOps", real_cls=records.FindOps, _rset=RSet)
  return Find


def _d_V(ip, i):
  valsof, _, _ = _ufs(ip)
  return SOpq(valsof(ip.int_term(i)), "Vals")

def _d_vlt(ip, a, b):
  _, vlt, _ = _ufs(ip)
  return SBool(vlt(a.t, b.t))

def _d_truthy(ip, a):
  _, _, truthy = _ufs(ip)
  return SBool(truthy(a.t))

_defs = {
  "valsof": _d_V, "vlt": _d_vlt, "truthy": _d_truthy,
  "n": "lambda: len(self._rset._row_ids)",
  "row": "lambda i: self._rset._row_ids[i]",
  "V": "lambda i: valsof(self._rset._row_ids[i])",
  "before": "lambda j: vlt(V(j), values)",      # row j sorts before the probe values
  "after": "lambda j: vlt(values, V(j))",       # row j sorts after the probe values
  "klt": "lambda i, j: vlt(V(i), V(j)) or (not vlt(V(j), V(i)) and row(i) < row(j))",
}

_requires = {
  "row_ids_valid": "forall(i, 0 <= i < n(), 0 < row(i) < 10**300)",
  "sorted_strict": "forall(i, j, 0 <= i < j < n(), klt(i, j))",
}
_probe = {"probe_nonempty": "truthy(values)"}


def _contract(method, params, requires, ensures, raises=None):
  c = Contract(prefix="C14." + method, target="records:FindOps." + method,
               file="sandbox/grist/records.py", params=params, requires=requires,
               ensures=ensures, raises=raises or {}, defs=_defs,
               notes="inlines the real RecordSet._bisect_find/_bisect_index/_find_eq/_at/"
                     "_get_sort_key/_to_local_row_id/__len__ and Record.__bool__")
  c.obj_lt["SortKey"] = _key_lt
  c.raw_axioms = _axioms
  return c


def build():
  Find = _mk_shapes()
  P = dict(self=Find, values=Vals)
  R = dict(_requires, **_probe)
  out = []
  out.append(_contract("lt", P, R, {
    "last_before": "forall(j, 0 <= j < n() and before(j) and forall(m, j < m < n(), not before(m)),"
                   " result._row_id == row(j))",
    "empty_when_none_before": "implies(forall(j, 0 <= j < n(), not before(j)), result._row_id == 0)",
  }))
  out.append(_contract("le", P, R, {
    "last_not_after": "forall(j, 0 <= j < n() and not after(j) and "
                      "forall(m, j < m < n(), after(m)), result._row_id == row(j))",
    "empty_when_all_after": "implies(forall(j, 0 <= j < n(), after(j)), result._row_id == 0)",
  }))
  out.append(_contract("gt", P, R, {
    "first_after": "forall(j, 0 <= j < n() and after(j) and forall(m, 0 <= m < j, not after(m)),"
                   " result._row_id == row(j))",
    "empty_when_none_after": "implies(forall(j, 0 <= j < n(), not after(j)), result._row_id == 0)",
  }))
  out.append(_contract("ge", P, R, {
    "first_not_before": "forall(j, 0 <= j < n() and not before(j) and "
                        "forall(m, 0 <= m < j, before(m)), result._row_id == row(j))",
    "empty_when_all_before": "implies(forall(j, 0 <= j < n(), before(j)), result._row_id == 0)",
  }))
  out.append(_contract("eq", P, R, {
    "first_equal": "forall(j, 0 <= j < n() and not before(j) and not after(j) and "
                   "forall(m, 0 <= m < j, before(m) or after(m)), result._row_id == row(j))",
    "empty_when_none_equal": "implies(forall(j, 0 <= j < n(), before(j) or after(j)), "
                             "result._row_id == 0)",
  }))
  PR = dict(self=Find, row=Int)
  RR = dict(_requires, member="exists(p, 0 <= p < n(), self._rset._row_ids[p] == row)")
  defs_row = dict(_defs)
  defs_row["rowat"] = defs_row.pop("row")
  for k in list(defs_row):
    if isinstance(defs_row[k], str):
      defs_row[k] = defs_row[k].replace("row(", "rowat(")
  RR = {k: v.replace("row(", "rowat(") for k, v in RR.items()}
  def rc(method, params, ensures, raises=None):
    c = _contract(method, params, RR, ensures, raises)
    c.defs = defs_row
    c._def_asts = {}
    return c
  out.append(rc("previous", PR, {
    "neighbour_before": "forall(p, 0 <= p < n() and rowat(p) == row, "
                        "result._row_id == (rowat(p - 1) if p > 0 else 0))",
  }))
  out.append(rc("next", PR, {
    "neighbour_after": "forall(p, 0 <= p < n() and rowat(p) == row, "
                       "result._row_id == (rowat(p + 1) if p + 1 < n() else 0))",
  }))
  out.append(rc("rank", dict(self=Find, row=Int, order="asc"), {
    "position_asc": "forall(p, 0 <= p < n() and rowat(p) == row, result == p + 1)",
  }))
  c = rc("rank", dict(self=Find, row=Int, order="desc"), {
    "position_desc": "forall(p, 0 <= p < n() and rowat(p) == row, result == n() - p)",
  })
  c.prefix = "C14.rank_desc"
  out.append(c)
  c = rc("rank", dict(self=Find, row=Int, order="sideways"), {"unreachable": "False"},
         raises={"ValueError": "True"})
  c.prefix = "C14.rank_bad_order"
  out.append(c)
  return out


CONTRACTS = build()


# ------------------------------------------------------------------------------------------
# Replay of counter-models on the REAL classes: the model's strict weak order over value tuples is
# turned into integer ranks, a one-column table stub serves those ranks, and the real
# sort_key.make_sort_key / records.RecordSet / records.FindOps are run on it.
# ------------------------------------------------------------------------------------------

def _concretize(contract, ob, model, ev):
  from vlib.pysym.interp import Interp, Ctx
  ip = Interp(Ctx(), contract, {})
  valsof, vlt, truthy = _ufs(ip)
  VS = opaque_sort("Vals")
  self_v = ob.witness_env["self"]
  rset = self_v.fields["_rset"]
  seq = rset.fields["_row_ids"]
  n = ev(seq.length).as_long()
  if n > 30: raise Unsupported("model too large to replay")
  rows = [ev(seq.at(z3.IntVal(i)).t).as_long() for i in range(n)]
  elems = {}
  def el(t):
    e = ev(t)
    elems[str(e)] = e
    return str(e)
  row_vals = {r: el(valsof(z3.IntVal(r))) for r in rows}
  probe = None
  if "values" in ob.witness_env and isinstance(ob.witness_env["values"], SOpq):
    probe = el(ob.witness_env["values"].t)
  row_arg = None
  if "row" in ob.witness_env:
    row_arg = ev(ob.witness_env["row"].t).as_long()
    row_vals.setdefault(row_arg, el(valsof(z3.IntVal(row_arg))))
  def rank(name):
    return sum(1 for o in elems.values() if z3.is_true(ev(vlt(o, elems[name]))))
  ranks = {r: rank(v) for r, v in row_vals.items()}
  args = {"rows": rows, "ranks": ranks}
  if probe is not None: args["probe_rank"] = rank(probe)
  if row_arg is not None: args["row"] = row_arg
  for k, v in contract.params.items():
    if not isinstance(v, Shape) and k not in args: args[k] = v
  return args


def _build_native(args):
  import records, sort_key
  ranks = args["ranks"]
  class Col(object):
    def get_cell_value(self, row_id): return ranks[row_id]
  class T(object):
    table_id = "T"
    _identity_relation = object()
    def get_column(self, col_id): return Col()
  t = T()
  class Rec(records.Record): _table = t
  class RS(records.RecordSet): _table = t
  t.Record, t.RecordSet = Rec, RS
  key = sort_key.make_sort_key(t, ("v",))
  return records.FindOps(RS(list(args["rows"]), sort_key=key))


def _native_for(method):
  def run(args):
    f = _build_native(args)
    m = getattr(f, method)
    if "probe_rank" in args: return m(args["probe_rank"])
    if "order" in args: return m(args["row"], order=args["order"])
    return m(args["row"])
  return run


class _NativeEnv(dict):
  pass


def _native_defs(args):
  """Concrete meaning of the spec symbols for a replay (ranks stand for value tuples)."""
  return {"valsof": lambda r: (args["ranks"][r],), "vlt": lambda a, b: a < b,
          "truthy": lambda a: bool(a)}


for _c in CONTRACTS:
  _c.custom_concretize = _concretize
  _c.native = _native_for(_c.target.split(".")[-1])
  _c.native_env = lambda args: dict(self=_build_native(args),
                                    values=(args.get("probe_rank"),), row=args.get("row"),
                                    **_native_defs(args))
