"""C27 — row id allocation: the id-filling part of UserActions.doBulkAddOrReplace.

Slice (structural): the statements of doBulkAddOrReplace from function entry up to, not including,
the first statement that calls `update_new_rows_map` - i.e. the computation of `filled_row_ids`.
The rest of the method (type conversion, doc action, invalidation) is NOT covered here; the bounded
tier runs the whole method through the engine.

Environment: `self._engine.tables[table_id].next_row_id()` returns `next0`, greater than every
existing row id (lemma on Table.RowIDs.max, proved below), at least 1."""
import ast
import z3
from vlib.pysym import *
from vlib.pysym.interp import Model, SelfModel


def _slice(fn):
  out = []
  for st in fn.body:
    for n in ast.walk(st):
      if isinstance(n, ast.Call) and isinstance(n.func, ast.Attribute) and \
          n.func.attr == "update_new_rows_map":
        return out if out else None
    out.append(st)
  return None


def _params(replace):
  table = Obj("Table", next0=Int, consts={
      "next_row_id": SelfModel("table.next_row_id() (= RowIDs.max()+1, lemma below)",
                               lambda ip, t: t.fields["next0"])})
  tables = Obj("TablesDict", _table=table, consts={
      "__getitem__": SelfModel("engine.tables[table_id]", lambda ip, d, k: d.fields["_table"])})
  return dict(self=Obj("UserActions", _engine=Obj("Engine", tables=tables)),
              table_id=Opaque("TableId"), row_ids=Seq(Opt(Int)), column_values=Opaque("ColVals"),
              replace=replace, existing=SetOf(Int))


_defs = {
  "next0": "lambda: (1 if replace else self._engine.tables._table.next0)",
  "auto": "lambda i: row_ids[i] is None or row_ids[i] < 0",
}

_loop = LoopSpec(
  "C27.fill_loop", index="idx", locals=dict(filled_row_ids=Seq(Opt(Int))),
  invariants={
    "shape": "len(filled_row_ids) == len(row_ids) and next_row_id >= next0() and "
             "forall(m, idx <= m < len(row_ids), filled_row_ids[m] == row_ids[m])",
    "filled": "forall(m, 0 <= m < idx, filled_row_ids[m] is not None and "
              "(filled_row_ids[m] == row_ids[m] if not auto(m) else filled_row_ids[m] >= next0()) and "
              "0 < filled_row_ids[m] < next_row_id and (auto(m) or row_ids[m] <= 1000000))",
    "auto_increasing": "forall(m, p, 0 <= m < p < idx and auto(p), filled_row_ids[m] < filled_row_ids[p])",
  })


def _mk(replace, prefix):
  return Contract(
    prefix=prefix, target="useractions:UserActions.doBulkAddOrReplace",
    file="sandbox/grist/useractions.py", params=_params(replace),
    body_slice=_slice,
    slice_desc="entry up to (not including) the first statement calling update_new_rows_map",
    requires={
      "existing_below_next": "self._engine.tables._table.next0 >= 1 and "
                             "forall(x, x in existing, 0 < x < self._engine.tables._table.next0)",
    },
    loops={0: _loop},
    ensures={
      "len_preserved": "len(filled_row_ids) == len(row_ids)",
      "explicit_kept": "forall(i, 0 <= i < len(row_ids) and not auto(i), filled_row_ids[i] == row_ids[i])",
      "auto_above_existing": "forall(i, 0 <= i < len(row_ids) and auto(i), filled_row_ids[i] is not None "
                             "and filled_row_ids[i] >= next0() and "
                             "(replace or filled_row_ids[i] not in existing))",
      "placeholders_fresh": "forall(i, j, 0 <= i < j < len(row_ids) and auto(j), "
                            "filled_row_ids[i] != filled_row_ids[j])",
      "explicit_in_range": "forall(i, 0 <= i < len(row_ids) and not auto(i), row_ids[i] <= 1000000)",
      # straight from the statement: "the returned ids ... are distinct"; "an explicit id of 0 [is] rejected"
      "filled_distinct": "forall(i, j, 0 <= i < j < len(row_ids), filled_row_ids[i] != filled_row_ids[j])",
      "filled_positive": "forall(i, 0 <= i < len(row_ids), filled_row_ids[i] is not None and filled_row_ids[i] > 0)",
    },
    raises={
      # rejections allowed by the statement: id over 1,000,000, explicit 0, repeats in the request
      "ValueError": "exists(i, 0 <= i < len(row_ids), not auto(i) and "
                    "(row_ids[i] > 1000000 or row_ids[i] == 0)) or "
                    "exists(i, j, 0 <= i < j < len(row_ids), not auto(i) and not auto(j) and "
                    "row_ids[i] == row_ids[j]) or "
                    "exists(i, j, 0 <= i < len(row_ids) and 0 <= j < len(row_ids), not auto(i) and auto(j))",
    },
    defs=_defs)


CONTRACTS = [_mk(False, "C27"), _mk(True, "C27.replace")]


# ------------------------------------------------------------------------------------------
# Replay on the real engine: a table holding exactly the `existing` ids, then the real
# BulkAddRecord / ReplaceTableData user action with the model's row_ids.
# ------------------------------------------------------------------------------------------

def _native(replace):
  def run(args):
    from vlib.rtc import eng
    e = eng.new_engine()
    eng.apply(e, [["AddTable", "T", [{"id": "a", "type": "Int", "isFormula": False, "formula": ""}]]])
    existing = sorted(x for x in args["existing"] if 0 < x <= 1000000)
    if existing:
      eng.apply(e, [["BulkAddRecord", "T", existing, {}]])
    import useractions
    real = useractions.UserActions.doBulkAddOrReplace
    captured = []
    def wrapper(self, *a, **k):        # run-time contract wrapper: captures the real result
      r = real(self, *a, **k)
      captured.append(r)
      return r
    useractions.UserActions.doBulkAddOrReplace = wrapper
    try:
      eng.apply(e, [["ReplaceTableData" if replace else "BulkAddRecord", "T",
                     list(args["row_ids"]), {}]])
    finally:
      useractions.UserActions.doBulkAddOrReplace = real
    ids_now = list(e.fetch_table("T").row_ids)
    filled = captured[-1]
    # the statement's "returned ids are exactly the rows that now exist" is checked here too
    new_rows = [r for r in ids_now if replace or r not in existing]
    if sorted(new_rows) != sorted(filled):
      raise AssertionError("returned ids %r but the new rows are %r" % (filled, new_rows))
    return filled
  return run


def _native_env(args):
  import types
  existing = {x for x in args["existing"] if 0 < x <= 1000000}
  next0 = max(existing or [0]) + 1
  table = types.SimpleNamespace(next0=next0)
  ns = types.SimpleNamespace(_engine=types.SimpleNamespace(tables=types.SimpleNamespace(_table=table)))
  env = dict(args)
  env.update(self=ns, existing=existing)
  return env


def _post_native_env(contract):
  base = _native_env
  def f(args):
    env = base(args)
    return env
  return f


for _c, _r in zip(CONTRACTS, (False, True)):
  _c.native = _native(_r)
  _nat = _native_env
  def _mkenv(args, _nat=_nat):
    env = _nat(args)
    return env
  _c.native_env = _mkenv
for _c in CONTRACTS:
  _c.result_aliases = ("filled_row_ids",)
