import linecache


class _Cache(object):
  def add(self, filename, source):
    lines = [line + "\n" for line in source.splitlines()]
    linecache.cache[filename] = (len(source), None, lines, filename)


cache = _Cache()
