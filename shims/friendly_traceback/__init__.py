"""Stub of the third-party package `friendly_traceback`, which /venv lacks (DESIGN.md 2.4).

Only `source_cache.cache.add` is provided (it stores the generated source in `linecache`, which
is what the real package does); there is no `core` submodule, so
`friendly_errors.friendly_message` takes its own except-path and returns "".
The stub changes error *message text* only.
"""
